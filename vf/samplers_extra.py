"""Importable subclasses of built-in samplers (distinct class names for line-ups of up to 6 classes; picklable)."""
from black_it.samplers.halton import HaltonSampler
from black_it.samplers.r_sequence import RSequenceSampler
from black_it.samplers.random_uniform import RandomUniformSampler


class HaltonB(HaltonSampler):
    pass


class RSequenceB(RSequenceSampler):
    pass


class RandomUniformB(RandomUniformSampler):
    pass
