"""Importable subclasses of built-in samplers (distinct class names for line-ups of up to 6 classes; picklable)."""
from black_it.samplers.halton import HaltonSampler
from black_it.samplers.r_sequence import RSequenceSampler
import numpy as np

from black_it.samplers.random_uniform import RandomUniformSampler


class HaltonB(HaltonSampler):
    pass


class RSequenceB(RSequenceSampler):
    pass


class RandomUniformB(RandomUniformSampler):
    pass


class Ballast(RandomUniformSampler):
    """A sampler that carries a growing amount of state (like a surrogate fitted on a growing history): ~28 MB more at every
    call, so the scheduler pickle of a checkpoint grows through tens of MB within a few batches."""

    STEP = 3_500_000

    def sample_batch(self, batch_size, search_space, existing_points, existing_losses):
        prev = getattr(self, "_ballast", np.zeros(0))
        self._ballast = np.concatenate([prev, np.full(self.STEP, float(len(existing_points)))])
        return super().sample_batch(batch_size, search_space, existing_points, existing_losses)


class Walkers(RandomUniformSampler):
    """A user-written sampler that KEEPS the array it returns and moves it in place at its next call (walkers): whatever it handed
    out for batch k is its own working buffer while it prepares batch k+1."""

    def sample_batch(self, batch_size, search_space, existing_points, existing_losses):
        fresh = super().sample_batch(batch_size, search_space, existing_points, existing_losses)
        buf = getattr(self, "_walkers", None)
        if buf is None or buf.shape != fresh.shape:
            self._walkers = np.array(fresh, dtype=np.float64)
        else:
            buf[...] = fresh          # in place: the previously returned array object now holds the new proposals
        return self._walkers
