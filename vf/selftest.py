"""Self-tests of the engines on toy programs with known bugs (./run selftest)."""
from __future__ import annotations

import importlib
import os
import sys


def main() -> int:
    import black_it

    repo = os.environ.get("VERIF_REPO", "/repo")
    if not os.path.realpath(black_it.__file__).startswith(os.path.realpath(repo)):
        print(f"selftest: black_it imported from {black_it.__file__}, expected under {repo}", file=sys.stderr)
        return 2
    failures = 0
    for name in ("vf.sched.selftest", "vf.crash.selftest"):
        try:
            mod = importlib.import_module(name)
        except ModuleNotFoundError:
            continue
        failures += mod.main()
    print(f"selftest: black_it from {black_it.__file__}; failures={failures}")
    return 1 if failures else 0
