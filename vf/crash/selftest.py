"""Crash-enumerator self-test on a toy two-file save."""
from __future__ import annotations

import json
import shutil
import tempfile
from pathlib import Path

from vf.crash import recorder as R


def save(folder: Path, version: int):
    folder.mkdir(parents=True, exist_ok=True)
    with (folder / "a.json").open("w") as f:
        json.dump({"v": version, "payload": "a" * 40}, f)
    with (folder / "b.json").open("w") as f:
        json.dump({"v": version, "payload": "b" * 40}, f)


def load_naive(folder):
    a = json.load((folder / "a.json").open())
    b = json.load((folder / "b.json").open())
    return a["v"], b["v"]


def load_checked(folder):
    a, b = load_naive(folder)
    if a != b:
        raise ValueError("version stamps disagree")
    return a, b


def main() -> int:
    failures = 0
    root = Path(tempfile.mkdtemp(prefix="vf_selftest_"))
    try:
        prev = root / "prev"
        save(prev / "F", 1)
        work = root / "work"
        shutil.copytree(prev, work)
        with R.recording(work) as log:
            save(work / "F", 2)
        log = [dict(op, file=op["file"].split("/", 1)[-1]) for op in log]
        pts, _ = R.crash_points(log)
        hyb_naive = hyb_checked = old = new = err = 0
        for n_ops, cut in pts:
            d = R.materialise(prev / "F", log, n_ops, cut, root / "crash")
            try:
                v = load_naive(d)
                if v == (1, 1):
                    old += 1
                elif v == (2, 2):
                    new += 1
                else:
                    hyb_naive += 1
            except Exception:  # noqa: BLE001
                err += 1
            try:
                v = load_checked(d)
                if v not in ((1, 1), (2, 2)):
                    hyb_checked += 1
            except Exception:  # noqa: BLE001
                pass
        if not (hyb_naive > 0 and hyb_checked == 0 and old > 0 and new > 0 and err > 0):
            print(f"selftest E3: naive hybrids {hyb_naive}, checked hybrids {hyb_checked}, old {old}, new {new}, error {err} over {len(pts)} crash states")
            failures += 1
    finally:
        shutil.rmtree(root, ignore_errors=True)
    return failures
