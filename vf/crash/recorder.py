"""E3 - write-log recorder and crash-state materialiser.

record(fn, root): runs fn() with every file opened for writing below `root` routed through a logging raw file, and with the
name `h5py` inside black_it.utils.json_pandas_checkpointing shimmed so that HDF5 performs its I/O through a Python file
object. The result is the ordered list of file operations
    {"file": name, "op": "open", "truncate": bool}
    {"file": name, "op": "write", "offset": int, "data": bytes}
    {"file": name, "op": "truncate", "size": int}
    {"file": name, "op": "close"}
    {"file": dst, "op": "rename", "src": src}     {"file": name, "op": "unlink"}     (write-to-temp-then-rename schemes)
materialise(prev_dir, log, n_ops, cut, dest): the folder a process death leaves behind after the first n_ops operations, the
next one (a write) being cut after `cut` bytes (process-death model: completed writes persist, in order).
"""
from __future__ import annotations

import builtins
import contextlib
import io
import os
import shutil
from pathlib import Path


class LoggingFile(io.FileIO):
    def __init__(self, path, mode, log, root):
        self._log = log
        self._name = str(Path(path).relative_to(root))
        trunc = "w" in mode
        existed = os.path.exists(path)
        super().__init__(path, mode)
        self._log.append({"file": self._name, "op": "open", "truncate": trunc, "existed": existed})

    def write(self, b):
        off = self.tell()
        data = bytes(b)
        n = super().write(b)
        self._log.append({"file": self._name, "op": "write", "offset": off, "data": data[:n]})
        return n

    def truncate(self, size=None):
        size = self.tell() if size is None else size
        r = super().truncate(size)
        self._log.append({"file": self._name, "op": "truncate", "size": int(size)})
        return r

    def close(self):
        if not self.closed:
            self._log.append({"file": self._name, "op": "close"})
        super().close()


class _H5Shim:
    """Replaces the name `h5py` in the checkpoint module: File(path, mode) goes through a LoggingFile."""

    def __init__(self, real, log, root):
        self._real, self._log, self._root = real, log, root

    def __getattr__(self, name):
        return getattr(self._real, name)

    def File(self, path, mode="r", **kw):  # noqa: N802
        p = Path(path)
        if mode == "r" or not str(p).startswith(str(self._root)):
            return self._real.File(path, mode=mode, **kw)
        if mode == "a":
            raw = LoggingFile(p, "r+b" if p.exists() else "w+b", self._log, self._root)
        elif mode in ("w", "w-", "x"):
            raw = LoggingFile(p, "w+b", self._log, self._root)
        else:
            raw = LoggingFile(p, "r+b", self._log, self._root)
        f = self._real.File(raw, mode=mode if mode != "a" or p.stat().st_size > 0 else "w", **kw)
        orig_close = f.close

        def close():
            orig_close()
            raw.close()

        f.close = close
        # `with h5py.File(...)` calls File.__exit__ -> self.close() through the class; wrap with a tiny context object instead
        return _H5Ctx(f, raw)


class _H5Ctx:
    def __init__(self, f, raw):
        self._f, self._raw = f, raw

    def __enter__(self):
        return self._f

    def __exit__(self, *a):
        try:
            self._f.close()
        finally:
            self._raw.close()
        return False

    def __getattr__(self, name):
        return getattr(self._f, name)


@contextlib.contextmanager
def recording(root):
    """Context manager yielding the log list."""
    import black_it.utils.json_pandas_checkpointing as jp

    root = Path(root).resolve()
    log: list = []
    real_open, real_io_open = builtins.open, io.open

    def my_open(file, mode="r", buffering=-1, encoding=None, errors=None, newline=None, closefd=True, opener=None):
        try:
            p = Path(os.fspath(file)).resolve() if not isinstance(file, int) else None
        except TypeError:
            p = None
        writing = any(c in mode for c in "wax+")
        if p is None or not writing or not str(p).startswith(str(root)):
            return real_open(file, mode, buffering, encoding, errors, newline, closefd, opener)
        raw_mode = mode.replace("b", "").replace("t", "")
        raw = LoggingFile(p, raw_mode, log, root)
        if buffering == 0:
            return raw
        buf = io.BufferedRandom(raw) if "+" in mode else io.BufferedWriter(raw)
        if "b" in mode:
            return buf
        return io.TextIOWrapper(buf, encoding=encoding, errors=errors, newline=newline)

    def rel(p):
        try:
            q = Path(os.fspath(p)).resolve()
        except TypeError:
            return None
        return str(q.relative_to(root)) if str(q).startswith(str(root)) else None

    real_replace, real_rename, real_remove, real_unlink = os.replace, os.rename, os.remove, os.unlink

    def mv(real):
        def f(src, dst, *a, **k):
            r = real(src, dst, *a, **k)
            if rel(src) is not None and rel(dst) is not None:
                log.append({"file": rel(dst), "op": "rename", "src": rel(src)})
            return r
        return f

    def rm(real):
        def f(path, *a, **k):
            name = rel(path)
            r = real(path, *a, **k)
            if name is not None:
                log.append({"file": name, "op": "unlink"})
            return r
        return f

    builtins.open = my_open
    io.open = my_open
    os.replace, os.rename, os.remove, os.unlink = mv(real_replace), mv(real_rename), rm(real_remove), rm(real_unlink)
    real_h5 = jp.h5py
    jp.h5py = _H5Shim(real_h5, log, root)
    try:
        yield log
    finally:
        builtins.open, io.open = real_open, real_io_open
        os.replace, os.rename, os.remove, os.unlink = real_replace, real_rename, real_remove, real_unlink
        jp.h5py = real_h5


def materialise(prev_dir, log, n_ops, cut, dest):
    """Build in `dest` the folder left by a process death after the first n_ops complete operations plus `cut` bytes of the next write."""
    dest = Path(dest)
    if dest.exists():
        shutil.rmtree(dest)
    if prev_dir is not None and Path(prev_dir).exists():
        shutil.copytree(prev_dir, dest)
    else:
        dest.mkdir(parents=True)
    handles = {}

    def fh(name, create):
        if name not in handles:
            p = dest / name
            if not p.exists():
                p.parent.mkdir(parents=True, exist_ok=True)
                p.touch()
            handles[name] = open(p, "r+b")  # noqa: SIM115
        return handles[name]

    ops = log[:n_ops]
    if cut is not None and n_ops < len(log) and log[n_ops]["op"] == "write":
        w = log[n_ops]
        ops = ops + [{"file": w["file"], "op": "write", "offset": w["offset"], "data": w["data"][:cut]}]
    for op in ops:
        if op["op"] == "open":
            f = fh(op["file"], True)
            if op["truncate"]:
                f.truncate(0)
        elif op["op"] == "write":
            f = fh(op["file"], True)
            f.seek(op["offset"])
            f.write(op["data"])
        elif op["op"] == "truncate":
            fh(op["file"], True).truncate(op["size"])
        elif op["op"] in ("rename", "unlink"):
            for nm in (op["file"], op.get("src")):
                if nm in handles:
                    handles.pop(nm).close()
            if op["op"] == "rename":
                if (dest / op["src"]).exists():
                    (dest / op["file"]).parent.mkdir(parents=True, exist_ok=True)
                    os.replace(dest / op["src"], dest / op["file"])
            elif (dest / op["file"]).exists():
                os.unlink(dest / op["file"])
    for f in handles.values():
        f.close()
    return dest


def crash_points(log, dense_limit=4096, stride=64):
    """All (n_ops, cut) pairs: every operation boundary, and inside every write every byte boundary (every `stride`-th byte
    plus both ends for writes longer than dense_limit). Returns (points, capped?)."""
    pts, capped = [], False
    for i, op in enumerate(log):
        pts.append((i, None))
        if op["op"] == "write":
            n = len(op["data"])
            if n <= dense_limit:
                cuts = range(1, n)
            else:
                capped = True
                cuts = sorted(set(list(range(1, n, stride)) + [1, 2, n - 2, n - 1]))
            pts += [(i, c) for c in cuts]
    pts.append((len(log), None))
    return pts, capped
