"""Module-level model functions for the harnesses (importable by name from loky workers, restorable by name).

Every model has the black-it signature model(theta, N, seed) -> array (N, D). Calls are logged into CALLS when
LOGGING is on (only meaningful in-process, i.e. n_jobs=1).
"""
from __future__ import annotations

import numpy as np

CALLS: list = []
LOGGING = False
FAULT_AT: int | None = None     # raise InjectedModelFault at the k-th call (0-based) when set
N_CALLS = 0
SCRIPT: list = []               # for model_script


class InjectedModelFault(Exception):
    pass


class InjectedModelStop(StopIteration):
    pass


class InjectedModelValueError(ValueError):
    pass


class InjectedModelLookupError(KeyError):
    pass


class InjectedModelOSError(OSError):
    pass


MODEL_FLAVOURS = {"value": InjectedModelValueError, "lookup": InjectedModelLookupError, "os": InjectedModelOSError}


class InjectedModelInterrupt(KeyboardInterrupt):
    """A BaseException that is not an Exception (what Ctrl-C during a simulation raises)."""


FAULT_INTERRUPT = False


def reset(logging=False, fault_at=None, script=None, interrupt=False):
    global CALLS, LOGGING, FAULT_AT, N_CALLS, SCRIPT, FAULT_INTERRUPT
    CALLS, LOGGING, FAULT_AT, N_CALLS = [], logging, fault_at, 0
    FAULT_INTERRUPT = interrupt
    SCRIPT = list(script) if script is not None else []


def _enter(theta, N, seed):
    global N_CALLS
    k = N_CALLS
    N_CALLS += 1
    if FAULT_AT is not None and k == FAULT_AT:
        if FAULT_INTERRUPT == "stop":
            raise InjectedModelStop(f"model call {k}")
        if FAULT_INTERRUPT in MODEL_FLAVOURS:
            raise MODEL_FLAVOURS[FAULT_INTERRUPT](f"model call {k}")
        if FAULT_INTERRUPT:
            raise InjectedModelInterrupt(f"model call {k}")
        raise InjectedModelFault(f"model call {k}")
    return k


def _log(theta, N, seed, out):
    if LOGGING:
        CALLS.append((np.array(theta, dtype=float).copy(), int(N), seed, out.copy()))
    return out


def _gauss(theta, N, seed, D):
    _enter(theta, N, seed)
    rng = np.random.default_rng(seed)
    th = np.asarray(theta, dtype=float)
    out = np.stack([th[j % len(th)] * (1 + j) + 0.1 * rng.standard_normal(N) for j in range(D)], axis=1)
    return _log(theta, N, seed, out)


def gauss1(theta, N, seed):
    return _gauss(theta, N, seed, 1)


def gauss2(theta, N, seed):
    return _gauss(theta, N, seed, 2)


def ident2(theta, N, seed):
    """Series = theta (no randomness): exposes a mis-association of series and parameters."""
    _enter(theta, N, seed)
    th = np.asarray(theta, dtype=float)
    out = np.tile(np.array([th[0], th[-1] + 10.0]), (N, 1)) + np.arange(N)[:, None] * 1e-3
    return _log(theta, N, seed, out)


def huge2(theta, N, seed):
    _enter(theta, N, seed)
    th = np.asarray(theta, dtype=float)
    out = np.tile(np.array([th[0] * 1e39 + 1e38, th[-1]]), (N, 1))
    return _log(theta, N, seed, out)


def inf2(theta, N, seed):
    _enter(theta, N, seed)
    th = np.asarray(theta, dtype=float)
    out = np.tile(np.array([np.inf if th[0] > 0.5 else th[0], th[-1]]), (N, 1))
    return _log(theta, N, seed, out)


def nan2(theta, N, seed):
    """NaN on one coordinate for part of the parameter space (a simulation that diverges there)."""
    _enter(theta, N, seed)
    th = np.asarray(theta, dtype=float)
    out = np.tile(np.array([np.nan if th[0] > 0.5 else th[0], th[-1]]), (N, 1)) + np.arange(N)[:, None] * 1e-3
    return _log(theta, N, seed, out)


def mutating2(theta, N, seed):
    """A model that converts its parameter vector IN PLACE (percent -> fraction): the caller's array must not be the live proposal."""
    _enter(theta, N, seed)
    th_in = np.array(theta, dtype=float).copy()
    try:
        theta *= 0.01
    except (TypeError, ValueError):
        pass
    out = np.tile(np.array([th_in[0], th_in[-1] + 10.0]), (N, 1)) + np.arange(N)[:, None] * 1e-3
    if LOGGING:
        CALLS.append((th_in, int(N), seed, out.copy()))
    return out


def nan_by_seed2(theta, N, seed):
    """A stochastic model that diverges for some SEEDS (NaN tail when seed % 4 == 0), whatever the parameters."""
    _enter(theta, N, seed)
    rng = np.random.default_rng(seed)
    th = np.asarray(theta, dtype=float)
    out = np.stack([th[j % len(th)] * (1 + j) + 0.1 * rng.standard_normal(N) for j in range(2)], axis=1)
    if seed is not None and int(seed) % 4 == 0:
        out[N // 2:, 0] = np.nan
    return _log(theta, N, seed, out)


def const2(theta, N, seed):
    _enter(theta, N, seed)
    out = np.ones((N, 2)) * 0.25
    return _log(theta, N, seed, out)


def slow_uneven2(theta, N, seed):
    """Run time depends on the parameter (completion order differs from submission order under n_jobs > 1)."""
    import time

    th = np.asarray(theta, dtype=float)
    time.sleep(0.03 if th[0] < 0.5 else 0.0)
    return _gauss(theta, N, seed, 2)


def slow_ident2(theta, N, seed):
    """ident2 with a parameter-dependent run time: under n_jobs > 1 later-submitted runs finish first."""
    import time

    th = np.asarray(theta, dtype=float)
    time.sleep(0.2 if th[0] < 0.5 else 0.0)
    out = np.tile(np.array([th[0], th[-1] + 10.0]), (N, 1)) + np.arange(N)[:, None] * 1e-3
    return out


def model_script(theta, N, seed):
    """Returns the next value of SCRIPT as a (N,1) series: with MinkowskiLoss(p=1) on real=[[0]] the loss is the script."""
    k = _enter(theta, N, seed)
    val = SCRIPT[k] if k < len(SCRIPT) else SCRIPT[-1]
    out = np.full((N, 1), float(val))
    return _log(theta, N, seed, out)


MODELS = {f.__name__: f for f in (nan_by_seed2, gauss1, gauss2, ident2, huge2, inf2, nan2, mutating2, const2, slow_uneven2, slow_ident2, model_script)}
