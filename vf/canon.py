"""Canonicaliser: maps an object graph of black-it objects to nested tuples / a digest.

Dropped / abstracted, with the argument that states merged this way have the same futures:
  fitted third-party models (sklearn / xgboost objects, by type; also the names _xg_regressor, _classifier, _gpmodel, _fmin):
      caches overwritten by fit() before every use
  queue.Queue / threading.Thread / locks (by type; also the names _agent_thread, _in_queue, _out_queue): a queue counts through its
      contents only, a thread through is_alive(); both are empty / dead between sessions (checked by C10)
  _prime_number_generator and any attribute holding only a prime table: pure cache (its answers do not depend on its state, C13)
Absolute scratch paths are normalised by the caller (saving_folder is compared separately).
"""
from __future__ import annotations

import hashlib
import queue as _queue
import threading as _threading
import types

import numpy as np

DROP = {"_xg_regressor", "_classifier", "_gpmodel", "_fmin", "_agent_thread", "_in_queue", "_out_queue", "_prime_number_generator"}


def canon(x, drop=DROP, _depth=0):
    if _depth > 12:
        return ("<deep>",)
    if x is None or isinstance(x, (bool, int, str)):
        return x
    if isinstance(x, float):
        return ("f", x.hex() if x == x else "nan")
    if isinstance(x, (np.floating,)):
        return ("f", float(x).hex() if x == x else "nan")
    if isinstance(x, (np.integer,)):
        return int(x)
    if isinstance(x, np.bool_):
        return bool(x)
    if isinstance(x, np.ndarray):
        if x.dtype == object:
            return ("ndobj", x.shape, tuple(canon(v, drop, _depth + 1) for v in x.ravel().tolist()))
        return ("nd", x.dtype.kind + str(x.dtype.itemsize), x.shape, hashlib.sha1(np.ascontiguousarray(x).tobytes()).hexdigest()[:20])
    if isinstance(x, np.random.Generator):
        return ("rng", canon(x.bit_generator.state, drop, _depth + 1))
    if isinstance(x, dict):
        return ("d", tuple(sorted(((str(k), canon(v, drop, _depth + 1)) for k, v in x.items() if k not in drop), key=lambda kv: kv[0])))
    if isinstance(x, (list, tuple)):
        return ("l", tuple(canon(v, drop, _depth + 1) for v in x))
    if isinstance(x, (set, frozenset)):
        return ("s", tuple(sorted((canon(v, drop, _depth + 1) for v in x), key=repr)))
    # live concurrency objects and fitted third-party models are recognised by TYPE, not by attribute name (a refactor may rename them)
    tname = type(x).__module__ + "." + type(x).__qualname__
    if isinstance(x, (_queue.Queue, _queue.SimpleQueue)) or tname.endswith("vthreads.VQueue"):
        try:
            items = list(x.queue) if hasattr(x, "queue") else list(getattr(x, "items", []))
        except Exception:  # noqa: BLE001
            items = []
        return ("queue", canon(items, drop, _depth + 1))
    if isinstance(x, _threading.Thread) or tname.endswith("vthreads.VThread"):
        return ("thread", bool(x.is_alive()))
    if tname.startswith(("_thread.", "threading.")):
        return ("sync", type(x).__name__)
    if tname.startswith(("sklearn.", "xgboost.", "scipy.")):
        return ("third-party-model", tname)
    if isinstance(x, (types.FunctionType, types.BuiltinFunctionType, types.MethodType)):
        return ("fn", getattr(x, "__module__", "?"), getattr(x, "__qualname__", repr(x)))
    if isinstance(x, type):
        return ("cls", x.__module__, x.__qualname__)
    if isinstance(x, bytes):
        return ("b", hashlib.sha1(x).hexdigest()[:20])
    if hasattr(x, "__dict__"):
        return ("o", type(x).__name__, canon(vars(x), drop, _depth + 1))
    if hasattr(x, "value"):  # enums
        return ("e", repr(x))
    return ("r", repr(x))


def digest(x) -> str:
    return hashlib.sha1(repr(canon(x)).encode()).hexdigest()[:20]


def diff(a, b, path="", out=None, limit=6):
    """Paths at which two canonical forms differ (for messages)."""
    if out is None:
        out = []
    if len(out) >= limit:
        return out
    if type(a) is not type(b):
        out.append(f"{path}: {str(a)[:60]} vs {str(b)[:60]}")
        return out
    if isinstance(a, tuple):
        if len(a) >= 2 and a[0] == "d" and b[0] == "d":
            da, db = dict(a[1]), dict(b[1])
            for k in sorted(set(da) | set(db)):
                if k not in da or k not in db:
                    out.append(f"{path}.{k}: {'missing' if k not in da else 'present'} vs {'missing' if k not in db else 'present'}")
                elif da[k] != db[k]:
                    diff(da[k], db[k], f"{path}.{k}", out, limit)
            return out
        if len(a) >= 3 and a[0] == "o" and b[0] == "o":
            if a[1] != b[1]:
                out.append(f"{path}: class {a[1]} vs {b[1]}")
                return out
            return diff(a[2], b[2], f"{path}<{a[1]}>", out, limit)
        if len(a) != len(b):
            out.append(f"{path}: length {len(a)} vs {len(b)}: {str(a)[:80]} vs {str(b)[:80]}")
            return out
        for i, (x, y) in enumerate(zip(a, b)):
            if x != y:
                diff(x, y, f"{path}[{i}]" if a[0] == "l" else path, out, limit)
        return out
    if a != b:
        out.append(f"{path}: {str(a)[:60]} vs {str(b)[:60]}")
    return out
