"""Command line: see /verif/run."""
from __future__ import annotations

import os
import sys

from vf import core

ALL = [f"C{i:02d}" for i in range(1, 21)]


def main(argv: list[str]) -> int:
    """Everything runs inside one private temp directory (also joblib's memmapping folders), removed on exit."""
    import shutil
    import tempfile

    base = "/dev/shm" if os.path.isdir("/dev/shm") else None
    tmp = tempfile.mkdtemp(prefix="vf_run_", dir=base)
    os.environ["JOBLIB_TEMP_FOLDER"] = tmp
    os.environ["TMPDIR"] = tmp
    tempfile.tempdir = tmp
    try:
        return _main(argv)
    finally:
        shutil.rmtree(tmp, ignore_errors=True)


def _main(argv: list[str]) -> int:
    if not argv:
        print(__doc__)
        return 2
    seed = int(os.environ.get("VERIF_SEED", "0") or 0)
    cmd = argv[0]
    if cmd == "replay":
        return core.replay(argv[1])
    if cmd == "selftest":
        from vf import selftest

        return selftest.main()
    tier = argv[1] if len(argv) > 1 else os.environ.get("VERIF_TIER", "quick")
    if tier not in ("quick", "thorough"):
        print(f"unknown tier {tier}", file=sys.stderr)
        return 2
    if cmd == "all":
        worst = 0
        for p in ALL:
            try:
                worst = max(worst, core.run_check(p, tier, seed))
            except ModuleNotFoundError:
                print(f"{p}: no check module")
        return worst
    return core.run_check(cmd.upper(), tier, seed)


if __name__ == "__main__":
    sys.exit(main(sys.argv[1:]))
