"""Shared plumbing: run context, evidence writer, known findings, replay files, worker pool.

Every check module in vf.checks exposes
    ID, TITLE
    main(ctx)            - enumerates its bounded space (usually through ctx.pmap) and feeds ctx
    replay_case(case)    - re-executes ONE recorded case straight-line; returns a list of violation
                           dicts [{"key":..., "what":...}] (empty = property held on that case)
A *cell* function run in a worker returns a dict in the common result shape, see merge_result().
"""
from __future__ import annotations

import contextlib
import hashlib
import importlib
import io
import json
import multiprocessing as mp
import os
import sys
import time
from pathlib import Path

HOME = Path(os.environ.get("VERIF_HOME", Path(__file__).resolve().parent.parent))
REPO = Path(os.environ.get("VERIF_REPO", "/repo"))
LEVEL = "model_checking"
MAX_REPLAY_FILES = 12


# ----------------------------------------------------------------------------------------------
# small helpers
# ----------------------------------------------------------------------------------------------
def digest(obj) -> str:
    return hashlib.sha1(repr(obj).encode()).hexdigest()[:16]


@contextlib.contextmanager
def quiet():
    """Swallow python-level stdout/stderr (black-it prints unconditionally)."""
    out, err = io.StringIO(), io.StringIO()
    with contextlib.redirect_stdout(out), contextlib.redirect_stderr(err):
        yield


def jsonable(x):
    """Best-effort conversion to something json.dump accepts (used for samples / replay files)."""
    import numpy as np

    if isinstance(x, dict):
        return {str(k): jsonable(v) for k, v in x.items()}
    if isinstance(x, (list, tuple, set, frozenset)):
        return [jsonable(v) for v in x]
    if isinstance(x, np.ndarray):
        return jsonable(x.tolist())
    if isinstance(x, (np.integer,)):
        return int(x)
    if isinstance(x, (np.floating, float)):
        f = float(x)
        if f != f or f in (float("inf"), float("-inf")):
            return repr(f)
        return f
    if isinstance(x, (np.bool_,)):
        return bool(x)
    if isinstance(x, (str, int, bool)) or x is None:
        return x
    if isinstance(x, bytes):
        return x.hex()
    return repr(x)


# ----------------------------------------------------------------------------------------------
# known findings
# ----------------------------------------------------------------------------------------------
class Findings:
    """Reads /verif/known_findings.txt. Never written at run time."""

    def __init__(self, path: Path | None = None):
        self.open: dict[tuple[str, str], str] = {}
        self.fixed: list[tuple[str, str, str]] = []
        path = path or (HOME / "known_findings.txt")
        if not path.exists():
            return
        for line in path.read_text().splitlines():
            line = line.strip()
            if not line or line.startswith("#"):
                continue
            if line.startswith("open:"):
                rest = line[len("open:"):].strip()
                parts = rest.split(None, 2)
                prop = parts[0].split("=", 1)[1]
                key = parts[1].split("=", 1)[1]
                what = parts[2] if len(parts) > 2 else ""
                self.open[(prop, key)] = what
            elif line.startswith("fixed:"):
                rest = line[len("fixed:"):].strip()
                parts = rest.split(None, 2)
                prop = parts[0].split("=", 1)[1]
                self.fixed.append((prop, parts[1], parts[2] if len(parts) > 2 else ""))

    def is_open(self, prop: str, key: str) -> bool:
        return (prop, key) in self.open


# ----------------------------------------------------------------------------------------------
# worker pool (spawn; long-lived workers; stdout of workers is discarded)
# ----------------------------------------------------------------------------------------------
def _worker_init():
    devnull = os.open(os.devnull, os.O_WRONLY)
    os.dup2(devnull, 1)
    os.dup2(devnull, 2)
    import warnings

    warnings.filterwarnings("ignore")


def _call(args):
    target, cell = args
    modname, fname = target.split(":")
    mod = importlib.import_module(modname)
    t0 = time.time()
    try:
        res = getattr(mod, fname)(cell)
    except BaseException as e:  # harness failure inside a worker: reported, never a verdict
        import traceback

        return {"harness_error": f"{type(e).__name__}: {e}\n{traceback.format_exc()}", "cell": jsonable(cell)}
    if isinstance(res, dict):
        res["_wall"] = time.time() - t0
        res["_cell"] = repr(cell)[:160]
    return res


def n_workers() -> int:
    return int(os.environ.get("VERIF_WORKERS", min(16, os.cpu_count() or 1)))


class _NoDaemonProcess(mp.get_context("spawn").Process):
    """Pool workers must be able to start joblib/loky children (n_jobs > 1 cells): joblib silently falls back to
    n_jobs=1 inside daemonic processes."""

    @property
    def daemon(self):
        return False

    @daemon.setter
    def daemon(self, value):
        pass


class _NoDaemonContext(type(mp.get_context("spawn"))):
    Process = _NoDaemonProcess


def shutdown_loky():
    """Stop the reusable loky executor of this process (called at the end of cells that used n_jobs > 1)."""
    try:
        from joblib.externals.loky import get_reusable_executor

        get_reusable_executor().shutdown(wait=True, kill_workers=True)
    except Exception:  # noqa: BLE001
        pass


class Pool:
    def __init__(self, workers: int | None = None):
        self.workers = workers or n_workers()
        self._pool = None

    def __enter__(self):
        if self.workers > 1:
            import multiprocessing.pool

            self._pool = multiprocessing.pool.Pool(self.workers, initializer=_worker_init, context=_NoDaemonContext())
        return self

    def __exit__(self, *a):
        if self._pool is not None:
            self._pool.terminate()
            self._pool.join()

    def imap(self, target: str, cells, chunksize: int = 1):
        args = [(target, c) for c in cells]
        if self._pool is None:
            for a in args:
                with quiet():
                    r = _call(a)
                yield r
        else:
            yield from self._pool.imap_unordered(_call, args, chunksize=chunksize)


# ----------------------------------------------------------------------------------------------
# run context
# ----------------------------------------------------------------------------------------------
VIOLATING_CELL_CAP = int(os.environ.get("VERIF_VIOLATING_CELL_CAP", "48"))


class HarnessError(Exception):
    """The harness could not run or was vacuous: exit 2, never a verdict."""


class Ctx:
    def __init__(self, prop: str, tier: str, seed: int, module):
        self.prop, self.tier, self.seed, self.module = prop, tier, seed, module
        self.t0 = time.time()
        self.findings = Findings()
        self.stats: dict[str, int] = {}
        self.evaluations = 0
        self.nontrivial = 0
        self.states = 0
        self.transitions = 0
        self.traces = 0
        self.outcomes: set = set()
        self.samples: list = []
        self.bounds: dict = {}
        self.rule = ""
        self.assumptions: list[str] = []
        self.caps_hit: list[str] = []
        self.exhaustive = True
        self.extra: dict = {}
        self.known: dict[str, list] = {}      # key -> [count, what]
        self.violations: dict[str, list] = {}  # key -> [count, what, case]
        self.replays: list[str] = []
        self.deadline = None
        self.guard_failures: list[str] = []
        self.cell_walls: list = []
        self.quick = tier == "quick"

    # -- results coming back from cells ------------------------------------------------------
    def merge_result(self, r: dict):
        """Common result shape of a cell:
        evaluations, nontrivial, states, transitions, traces : ints (summed)
        stats: {name: int} (summed)      outcomes: list of hashables (unioned)
        samples: list (first few kept)   violations: [{"key","what","case"}]
        caps_hit: [str]
        """
        if r is None:
            return
        if "harness_error" in r:
            raise HarnessError(f"worker failed on cell {r.get('cell')}: {r['harness_error']}")
        if "_wall" in r:
            self.cell_walls.append((r["_wall"], str(r.get("_cell", ""))[:160]))
        self.evaluations += r.get("evaluations", 0)
        self.nontrivial += r.get("nontrivial", 0)
        self.states += r.get("states", 0)
        self.transitions += r.get("transitions", 0)
        self.traces += r.get("traces", 0)
        for k, v in r.get("stats", {}).items():
            self.stats[k] = self.stats.get(k, 0) + v
        for o in r.get("outcomes", []):
            self.outcomes.add(o if not isinstance(o, list) else tuple(o))
        for s in r.get("samples", []):
            if len(self.samples) < 8:
                self.samples.append(s)
        for c in r.get("caps_hit", []):
            if c not in self.caps_hit:
                self.caps_hit.append(c)
                self.exhaustive = False
        for v in r.get("violations", []):
            self.add_violation(v["key"], v["what"], v.get("case"))

    def pmap(self, target: str, cells, workers: int | None = None, chunksize: int = 1, progress: bool = False):
        cells = list(cells)
        with Pool(workers if workers is not None else (n_workers() if len(cells) > 1 else 1)) as pool:
            done, violating = 0, 0
            for r in pool.imap(target, cells, chunksize=chunksize):
                self.merge_result(r)
                done += 1
                if any(not self.findings.is_open(self.prop, v["key"]) for v in r.get("violations", [])):
                    violating += 1
                    if violating >= VIOLATING_CELL_CAP and done < len(cells):
                        # the property is refuted many times over: do not spend the rest of the exploration on a broken tree
                        # (never taken where the property holds: there are no violating cells)
                        self.caps_hit.append(f"stopped after {violating} cells with violations ({done} of {len(cells)} cells explored)")
                        break
                if progress and done % max(1, len(cells) // 10) == 0:
                    print(f"  .. {done}/{len(cells)} cells, {time.time() - self.t0:.0f}s", flush=True)

    # -- violations ---------------------------------------------------------------------------
    def add_violation(self, key: str, what: str, case=None):
        if self.findings.is_open(self.prop, key):
            e = self.known.setdefault(key, [0, self.findings.open[(self.prop, key)], case])
            e[0] += 1
            return
        e = self.violations.setdefault(key, [0, what, case])
        e[0] += 1

    def stat(self, name: str, n: int = 1):
        self.stats[name] = self.stats.get(name, 0) + n

    def require(self, cond: bool, msg: str):
        """Vacuity guard: judged at the end, and only when no violation was found (a broken tree may
        legitimately never reach some class of situations; a silent pass must not be vacuous)."""
        if not cond:
            self.guard_failures.append(msg)

    # -- finishing ----------------------------------------------------------------------------
    def _gate_and_record(self) -> int:
        """Reproducibility gate + replay files. Returns number of confirmed violations."""
        confirmed = 0
        unreproduced: list = []
        rdir = HOME / "replays" / self.prop
        for key, (count, what, case) in sorted(self.violations.items()):
            gate_any = getattr(self.module, "gate_any", None)
            if case is not None and hasattr(self.module, "replay_case") and gate_any is not None and gate_any(case):
                # the case involves real OS-level parallelism that the harness does not own (loky workers): the symptom itself
                # is timing dependent; it is accepted if it shows again in one of three straight-line replays
                ok = False
                for _ in range(3):
                    with quiet():
                        vs = self.module.replay_case(case)
                    if key in {v["key"] for v in vs}:
                        ok = True
                        break
                if not ok:
                    # not reported (nothing is believed that does not show again); a harness error only if NO key of this run reproduces
                    unreproduced.append(key)
                    continue
            elif case is not None and hasattr(self.module, "replay_case") and not getattr(self.module, "NONDETERMINISM_IS_VIOLATION", False):
                keys = []
                for _ in range(2):
                    with quiet():
                        vs = self.module.replay_case(case)
                    keys.append(sorted({v["key"] for v in vs}))
                if keys[0] != keys[1] or key not in keys[0]:
                    raise HarnessError(
                        f"violation {key!r} did not reproduce identically on replay ({keys}); harness nondeterminism, no verdict",
                    )
            confirmed += 1
            if len(self.replays) < MAX_REPLAY_FILES:
                rdir.mkdir(parents=True, exist_ok=True)
                path = rdir / f"{digest((key, jsonable(case)))}.json"
                path.write_text(json.dumps(
                    {"property": self.prop, "key": key, "what": what, "count_in_run": count,
                     "tier": self.tier, "seed": self.seed, "case": jsonable(case)}, indent=1))
                self.replays.append(str(path))
                print(f"VIOLATION property={self.prop} replay={path}")
                print(f"  key={key} count={count} :: {what}")
            else:
                print(f"  (further violation key={key} count={count} :: {what})")
        if unreproduced and not confirmed:
            raise HarnessError(f"violation(s) {unreproduced} (cases depending on hidden state or parallelism) did not reproduce in three replays; no verdict")
        if unreproduced:
            print(f"  (not reported: {unreproduced} did not show again in three replays)")
        return confirmed

    def finish(self) -> int:
        for key, (count, what, _case) in sorted(self.known.items()):
            print(f"KNOWN-FINDING: property={self.prop} key={key} ({count} cases in this run) {what}")
        confirmed = self._gate_and_record()
        if not confirmed and self.guard_failures:
            raise HarnessError("vacuity guard failed: " + "; ".join(self.guard_failures))
        wall = time.time() - self.t0
        if os.environ.get("VERIF_DEBUG"):
            for w, c in sorted(self.cell_walls, reverse=True)[:5]:
                print(f"  slow cell {w:.1f}s {c}")
            print(f"  sum of cell walls {sum(w for w, _ in self.cell_walls):.1f}s over {len(self.cell_walls)} cells")
        cov = {
            "evaluations": int(self.evaluations),
            "distinct_nontrivial": int(self.nontrivial),
            "rule": self.rule,
            "samples": jsonable(self.samples) or ["(none recorded)"],
            "states": int(self.states),
            "transitions": int(self.transitions),
            "traces_validated_against_impl": int(self.traces),
            "distinct_outcomes": len(self.outcomes),
            "exhaustive": bool(self.exhaustive and not self.caps_hit),
            "caps_hit": self.caps_hit,
            "bounds": jsonable(self.bounds),
            "stats": {k: int(v) for k, v in sorted(self.stats.items())},
            "known_findings_seen": {k: v[0] for k, v in sorted(self.known.items())},
            "violation_keys": {k: v[0] for k, v in sorted(self.violations.items())},
            "replays": self.replays,
            "repo": str(REPO),
        }
        cov.update(jsonable(self.extra))
        ev = {
            "property_id": self.prop,
            "tier": self.tier,
            "seed": int(self.seed),
            "level": LEVEL,
            "coverage": cov,
            "assumptions": self.assumptions,
            "wall_s": round(wall, 2),
            "violations": confirmed,
        }
        edir = HOME / "evidence"
        edir.mkdir(exist_ok=True)
        (edir / f"{self.prop}.json").write_text(json.dumps(ev, indent=1) + "\n")
        print(
            f"{self.prop} {self.tier} seed={self.seed}: evaluations={cov['evaluations']} nontrivial={cov['distinct_nontrivial']} "
            f"states={cov['states']} transitions={cov['transitions']} traces={cov['traces_validated_against_impl']} "
            f"outcomes={cov['distinct_outcomes']} exhaustive={cov['exhaustive']} known={len(self.known)} "
            f"violations={confirmed} wall={wall:.1f}s",
        )
        return 1 if confirmed else 0


def load_check(prop: str):
    return importlib.import_module(f"vf.checks.{prop.lower()}")


def run_check(prop: str, tier: str, seed: int) -> int:
    mod = load_check(prop)
    ctx = Ctx(prop, tier, seed, mod)
    try:
        mod.main(ctx)
        return ctx.finish()
    except HarnessError as e:
        print(f"HARNESS-ERROR property={prop}: {e}", file=sys.stderr)
        return 2
    except Exception as e:  # noqa: BLE001  (a crash of the machinery is never a verdict)
        import traceback

        print(f"HARNESS-ERROR property={prop}: unexpected {type(e).__name__}: {e}\n{traceback.format_exc()}", file=sys.stderr)
        return 2


def replay(path: str) -> int:
    rec = json.loads(Path(path).read_text())
    mod = load_check(rec["property"])
    vs = mod.replay_case(rec["case"])
    if vs:
        for v in vs:
            print(f"REPRODUCED property={rec['property']} key={v['key']} :: {v['what']}")
        return 1
    print(f"NOT-REPRODUCED property={rec['property']} (the case now satisfies the property)")
    return 0
