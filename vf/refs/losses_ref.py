"""Reference implementations of the built-in losses, written from their published definitions (docstrings, docs/, the cited
formulas), in plain Python/NumPy with explicit sums. Not derived from the implementation's code paths: words are tuples, masks
and kernels are written out, moments come from their textbook formulas.
"""
from __future__ import annotations

import math

import numpy as np


# ------------------------------------------------------------------------------------------ common layer
def compute(loss_1d, sim, real, weights=None, filters=None):
    """sim (E,T,D), real (T,D): sum_i w_i * loss_1d(filter_i applied to each member's coordinate i, real[:, i]); w default 1/D."""
    E, T, D = sim.shape
    w = [1.0 / D] * D if weights is None else list(weights)
    total = 0.0
    for i in range(D):
        members = [np.asarray(sim[e, :, i], dtype=float) for e in range(E)]
        if filters is not None and filters[i] is not None:
            members = [np.asarray(filters[i](m), dtype=float) for m in members]
        total += w[i] * loss_1d(members, np.asarray(real[:, i], dtype=float))
    return total


# ------------------------------------------------------------------------------------------ Minkowski
def minkowski_1d(p):
    def f(members, y):
        mean = [math.fsum(m[t] for m in members) / len(members) for t in range(len(y))]
        return math.fsum(abs(mean[t] - y[t]) ** p for t in range(len(y))) ** (1.0 / p)
    return f


# ------------------------------------------------------------------------------------------ moments
def _central(x, k):
    mu = math.fsum(x) / len(x)
    return math.fsum((v - mu) ** k for v in x) / len(x)


def _sroot(v, k):
    return math.copysign(abs(v) ** (1.0 / k), v) if v == v else float("nan")


def _acf(x, lag):
    n = len(x)
    mu = math.fsum(x) / n
    den = math.fsum((v - mu) ** 2 for v in x)
    num = math.fsum((x[t] - mu) * (x[t + lag] - mu) for t in range(n - lag))
    return num / den if den != 0 else float("nan")


def _nine(x):
    x = [float(v) for v in x]
    m2 = _central(x, 2)
    mean = math.fsum(x) / len(x)
    std = math.sqrt(m2)
    skew = _central(x, 3) / m2 ** 1.5 if m2 > 0 else float("nan")
    kurt = _central(x, 4) / m2 ** 2 - 3.0 if m2 > 0 else float("nan")
    out = [mean, std, _sroot(skew, 3), _sroot(kurt, 4)] + [_acf(x, k) for k in range(1, 6)]
    return out


def moments18(x):
    """mean, population std, signed cube/fourth roots of biased skewness / excess kurtosis, biased autocorrelations 1..5;
    the same nine on |first differences|; non-finite -> 0."""
    x = [float(v) for v in x]
    d = [abs(x[i + 1] - x[i]) for i in range(len(x) - 1)]
    out = _nine(x) + _nine(d)
    return np.array([0.0 if (v != v) else (1.7976931348623157e308 if v == float("inf") else (-1.7976931348623157e308 if v == float("-inf") else v)) for v in out])


def msm_1d(cov="identity", standardise=False, calculator=moments18, abs_floor=True):
    """abs_floor: treat a per-moment variance below 1e-20 (rounding noise of moments that are exactly equal in exact arithmetic) as the
    undefined 0/0; switched off for data at unusual scales, where only a variance that is negligible RELATIVE to the moments counts."""
    def f(members, y):
        ms = [np.asarray(calculator(m), dtype=float) for m in members]
        my = np.asarray(calculator(y), dtype=float)
        if standardise:
            ms = [m / np.abs(my) for m in ms]
            my = my / np.abs(my)
        mean = np.mean(np.array(ms), axis=0)
        g = my - mean
        if isinstance(cov, str) and cov == "identity":
            return float(np.sum(g * g))
        if isinstance(cov, str) and cov == "inverse_variance":
            var = np.mean(np.array([(my - m) ** 2 for m in ms]), axis=0)
            scale = my * my + np.max(np.array(ms) ** 2, axis=0)
            if np.any(var <= 1e-24 * scale) or (abs_floor and np.min(var) < 1e-20 * max(1.0, float(np.max(my * my)))):
                return float("nan")  # 0/0 (a moment on which every member equals the real series): undefined by definition
            return float(np.sum(g * g / var))
        W = np.asarray(cov, dtype=float)
        return float(g @ W @ g)
    return f


def three_moments(x):
    x = np.asarray(x, dtype=float)
    return np.array([np.mean(x), np.max(x) - np.min(x), np.mean(x * x)])


# ------------------------------------------------------------------------------------------ Fourier
def fourier_1d(kind, f):
    def mask(n_freq):
        if abs((f * n_freq) % 1.0 - 0.5) < 1e-12 and int(f * n_freq) % 2 == 0:
            # exact half-way on which round-half-even and round-half-up disagree: "keep the fraction f of the frequencies" does not
            # say which way to round; not asserted either way (ties where both rules agree are judged)
            raise ValueError("rounding tie")
        cut = np.round(f * n_freq)
        k = np.arange(n_freq)
        if kind == "ideal":
            return (k < int(cut)).astype(float)
        return np.exp(-(k ** 2) / (2.0 * cut ** 2))

    def g(members, y):
        fy = np.fft.rfft(np.asarray(y, dtype=float))
        n_freq = len(fy)
        m = mask(n_freq)
        fs = np.mean(np.array([np.fft.rfft(np.asarray(s, dtype=float)) * m for s in members]), axis=0)
        return float(np.sqrt(np.sum(np.abs(fs - fy * m) ** 2) / n_freq))
    return g


# ------------------------------------------------------------------------------------------ GSL-div
EPS = 1e-5


def symbolise(x, b):
    x = np.asarray(x, dtype=float)
    edges = np.linspace(np.min(x) - EPS, np.max(x) + EPS, b + 1)
    return [int(np.sum(edges < v)) for v in x]


def _entropy(counts, base):
    n = sum(counts.values())
    return -math.fsum((c / n) * math.log(c / n) for c in counts.values()) / math.log(base)


def _words(sym, length, packing):
    n = len(sym) + 1 - length
    if packing == "tuple":
        return [tuple(sym[i:i + length]) for i in range(n)]
    return [sum(sym[i + j] * 10 ** (length - j - 1) for j in range(length)) for i in range(n)]


def gsl_1d(nb_values=None, nb_word_lengths=None, packing="tuple"):
    def f(members, y):
        T = len(y)
        b = int((T - 1) / 2.0) if nb_values is None else nb_values
        L = int((T - 1) / 2.0) if nb_word_lengths is None else nb_word_lengths
        obs = symbolise(y, b)
        total = 0.0
        for m in members:
            sim = symbolise(m, b)
            div = 0.0
            for l in range(1, L + 1):
                ws, wo = _words(sim, l, packing), _words(obs, l, packing)
                cs, cm = {}, {}
                for w in ws:
                    cs[w] = cs.get(w, 0) + 1
                    cm[w] = cm.get(w, 0) + 1
                for w in wo:
                    cm[w] = cm.get(w, 0) + 1
                base = float(b ** l)
                weight = 2.0 * l / (L * (L + 1))
                corr = (len(cm) - len(cs)) / (2.0 * T)
                div += weight * (2.0 * _entropy(cm, base) - _entropy(cs, base) + corr)
            total += div
        return total / len(members)
    return f


def gsl_has_collision(members, y, nb_values, nb_word_lengths):
    """Do two DISTINCT symbol tuples of this very input pack to the same base-10 integer?"""
    T = len(y)
    b = int((T - 1) / 2.0) if nb_values is None else nb_values
    L = int((T - 1) / 2.0) if nb_word_lengths is None else nb_word_lengths
    series = [symbolise(y, b)] + [symbolise(m, b) for m in members]
    for l in range(2, L + 1):
        seen = {}
        for s in series:
            for i in range(len(s) + 1 - l):
                t = tuple(s[i:i + l])
                p = sum(t[j] * 10 ** (l - j - 1) for j in range(l))
                if p in seen and seen[p] != t:
                    return True
                seen[p] = t
    return False


# ------------------------------------------------------------------------------------------ kernel likelihood
def likelihood(sim, real, h="silverman", filters=None):
    """-(1/R) sum_r sum_t log( (1/S) sum_s K_h( (1/D) ||x_rs - y_t||^2 ) ), Gaussian kernel in D dimensions."""
    R, S, D = sim.shape
    x = np.array(sim, dtype=float)
    if filters is not None:
        cols = []
        for i in range(D):
            col = np.array([(filters[i](x[r, :, i]) if filters[i] is not None else x[r, :, i]) for r in range(R)], dtype=float)
            cols.append(col)
        x = np.stack(cols, axis=2)
        S = x.shape[1]
    if h == "silverman":
        hh = ((S * (D + 2)) / 4.0) ** (-1.0 / (D + 4))
    elif h == "scott":
        hh = S ** (-1.0 / (D + 4))
    else:
        hh = float(h)
    T = real.shape[0]
    total = 0.0
    for r in range(R):
        for t in range(T):
            acc = []
            for s in range(S):
                q = math.fsum((x[r, s, d] - real[t, d]) ** 2 for d in range(D)) / D
                acc.append(math.exp(-q / (2 * hh * hh)) / (hh ** D * (2 * math.pi) ** (D / 2.0)))
            dens = math.fsum(acc) / S
            total += math.log(dens) if dens > 0 else float("-inf")
    return -total / R
