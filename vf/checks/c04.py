"""C04 - a checkpoint restores the calibrator state exactly (E2 + exhaustive float lattice).

BFS over operation histories {calibrate(1), calibrate(2), create_checkpoint(F), restore(F), start a new run in F} on the real
Calibrator (states are real objects, branched by deepcopy + folder copy; deduplicated on the canonical state of the live
object and of what the folder loads as). After every operation that writes F:
  (a) canon(restore(F)) == canon(live)   - configuration, counters, five arrays incl. dtype, generator, scheduler/samplers, loss
  (b) the restored object is usable and has the same future: one more batch on it and on a copy of the live object agree
  (c) the same component tuple survives the SQLite back-end (save -> load, element-wise)
Float lattice: ~12k doubles (grid values, nextafter neighbours, powers of 2 and 10, +-0, +-inf, NaN, subnormals) through the
CSV path, compared bitwise.
"""
from __future__ import annotations

import copy
import json
import shutil

import numpy as np

from vf.canon import canon, diff
from vf.core import quiet
from vf.opseq import cal as C

ID = "C04"
TITLE = "A checkpoint restores the calibrator state exactly"


def folder_digest(folder, cfg):
    from black_it.utils.json_pandas_checkpointing import load_calibrator_state

    if not (folder / "calibration_params.json").exists():
        return ("empty",)
    try:
        with quiet():
            t = load_calibrator_state(str(folder), 0)
        return hash(canon(list(t)))
    except Exception as e:  # noqa: BLE001
        return ("load-error", type(e).__name__)


def series_relation(folder, live):
    """How the series file that was in the folder before a write relates to the live run (for keys)."""
    import h5py

    p = folder / "series_samp.h5"
    if not p.exists():
        return "none"
    try:
        with h5py.File(p, "r") as f:
            shp = f["data"].shape
    except Exception:  # noqa: BLE001
        return "unreadable"
    if tuple(shp[1:]) != tuple(live.series_samp.shape[1:]):
        return "prev-other-shape"
    if shp[0] == 0:
        return "prev-empty"
    n = live.series_samp.shape[0]
    return "prev-rows=" + ("more" if shp[0] > n else "equal" if shp[0] == n else "fewer")


def check_written(live, folder, cfg, prev_relation, foreign):
    """Invariants (a), (b), (c) after the folder was written for `live`. Returns [(key, what)]."""
    v = []
    try:
        rest = C.restore(folder, cfg)
    except Exception as e:  # noqa: BLE001
        if foreign:
            return [("stale-series-file:" + prev_relation, f"restore after a new run wrote into a folder holding another run's files raised {type(e).__name__}: {e}")]
        return [("restore-raises", f"restore raised {type(e).__name__}: {e}")]
    a, b = C.state(live, with_folder=True), C.state(rest, with_folder=True)
    if a != b:
        d = diff(a, b)
        only_series = all(x.startswith(".hist.series_samp") for x in d)
        if foreign and only_series:
            return [("stale-series-file:" + prev_relation, f"a new run saved into a folder that held another run's series file: restored series_samp differs from the live one ({d[:2]})")]
        comp = d[0].split(":")[0] if d else "?"
        return [("restored-state-differs:" + comp.split("<")[0].split("[")[0], f"restore(F) differs from the saved object: {d[:4]}")]
    # (b) usable, same future (an unseeded calibrator that has not run a batch yet seeds itself from OS entropy: no common future)
    if live.random_state is None and live.current_batch_index == 0:
        return v + sqlite_roundtrip(live)
    try:
        l2 = copy.deepcopy(live)
        l2.saving_folder = None
        rest.saving_folder = None
        with quiet():
            l2.calibrate(1)
            rest.calibrate(1)
        a2, b2 = C.state(l2), C.state(rest)
        if a2 != b2:
            v.append(("restored-future-differs", f"one more batch on the restored object and on the live one disagree: {diff(a2, b2)[:3]}"))
    except Exception as e:  # noqa: BLE001
        v.append(("restored-unusable", f"calibrate(1) on the restored object raised {type(e).__name__}: {e}"))
    # (c) SQLite back-end
    v += sqlite_roundtrip(live)
    return v


def sqlite_roundtrip(live):
    from black_it.utils import sqlite3_checkpointing as sq

    comps = [live.param_grid.parameters_bounds, live.param_grid.parameters_precision, live.real_data, live.ensemble_size, live.N, live.D,
             live.convergence_precision, live.verbose, live.saving_folder, live.random_state, live.random_generator.bit_generator.state,
             live.model.__name__, live.scheduler, live.loss_function, live.current_batch_index, live.params_samp, live.losses_samp,
             live.series_samp, live.batch_num_samp, live.method_samp]
    names = ["parameters_bounds", "parameters_precision", "real_data", "ensemble_size", "N", "D", "convergence_precision", "verbose", "saving_file",
             "initial_random_seed", "random_generator_state", "model_name", "scheduler", "loss_function", "current_batch_index", "params_samp",
             "losses_samp", "series_samp", "batch_num_samp", "method_samp"]
    with C.scratch() as tmp:
        try:
            with quiet():
                sq.save_calibrator_state(tmp / "sq", *comps)
                got = sq.load_calibrator_state(tmp / "sq")
        except Exception as e:  # noqa: BLE001
            return [("sqlite-raises", f"SQLite save/load raised {type(e).__name__}: {e}")]
    out = []
    for nm, x, y in zip(names, comps, got):
        cx, cy = canon(x), canon(y)
        if nm == "verbose":
            cx, cy = bool(x), bool(y)
        if cx != cy:
            out.append(("sqlite-component-differs:" + nm, f"SQLite back-end: component {nm} differs after save->load: {diff(cx, cy)[:2] if isinstance(cx, tuple) else (cx, cy)}"))
            break
    return out


def straight_line(cfg, auto, ops):
    """Re-execute one history inside ONE folder (the BFS gives every transition its own folder copy, which hides state that the
    implementation keeps per folder path): restore == live after every write, restore == saved state after every restore."""
    out = []
    with C.scratch() as root:
        F = root / "F"
        live = C.build(dict(cfg, saving_folder=str(F)) if auto else cfg)
        cur_cfg, saved = cfg, None
        for i, op in enumerate(ops):
            wrote = False
            try:
                if op in ("c1", "c2"):
                    with quiet():
                        live.calibrate(int(op[1]))
                    wrote = live.saving_folder is not None
                elif op == "k":
                    with quiet():
                        live.create_checkpoint(str(F))
                    wrote = True
                elif op == "r":
                    live = C.restore(F, cur_cfg)
                    if saved is not None and C.state(live) != saved:
                        return [("restored-state-differs:straight-line", f"ops={ops[:i + 1]} in one folder: restore(F) differs from the state that was saved: {diff(saved, C.state(live))[:3]}")]
                else:
                    return out   # new-run histories are covered by the BFS
            except Exception as e:  # noqa: BLE001
                return [("operation-raises:" + op, f"straight-line ops={ops[:i + 1]}: {type(e).__name__}: {e}")]
            if wrote:
                saved = C.state(live)
                try:
                    rest = C.restore(F, cur_cfg)
                except Exception as e:  # noqa: BLE001
                    return [("restore-raises", f"straight-line ops={ops[:i + 1]}: {type(e).__name__}: {e}")]
                if C.state(rest) != saved:
                    return [("restored-state-differs:straight-line", f"ops={ops[:i + 1]} in one folder: restore(F) differs from the live object: {diff(saved, C.state(rest))[:3]}")]
    return out


NEW_RUNS = {
    "n:seed": lambda cfg: dict(cfg, seed=cfg.get("seed", 0) + 17),
    "n:lineup": lambda cfg: dict(cfg, lineup=[{"cls": "RandomUniform", "bs": 2}, {"cls": "RSequence", "bs": 2}]),
    "n:bs": lambda cfg: dict(cfg, lineup=[dict(s, bs=s["bs"] + 2) for s in cfg["lineup"]], seed=cfg.get("seed", 0) + 1),
    "n:ens": lambda cfg: dict(cfg, ensemble=cfg.get("ensemble", 1) + 1),
}


def bfs(cell):
    cfg, depth, auto = cell["cfg"], cell["depth"], cell["auto"]
    res = {"evaluations": 0, "nontrivial": 0, "states": 0, "transitions": 0, "traces": 0, "stats": {}, "outcomes": set(), "violations": [], "samples": []}
    st = res["stats"]

    def viol(key, what, hist):
        if sum(1 for x in res["violations"] if x["key"] == key) < 1:
            lineup = "+".join(s["cls"] for s in cfg["lineup"])
            res["violations"].append({"key": key, "what": f"[{lineup} sched={cfg.get('scheduler', 'rr')} auto_save={auto} ops={hist}] {what}",
                                      "case": {"cfg": cfg, "auto": auto, "ops": list(hist)}})

    with C.scratch() as root:
        counter = [0]

        def new_dir(src=None):
            counter[0] += 1
            d = root / f"s{counter[0]}"
            if src is not None and src.exists():
                shutil.copytree(src, d)
            else:
                d.mkdir()
            return d

        d0 = new_dir()
        live0 = C.build(dict(cfg, saving_folder=str(d0 / "F")) if auto else cfg)
        frontier = [(live0, d0, [], cfg, False, None)]
        seen = {(hash(C.state(live0)), ("empty",))}
        ops_all = ["c1", "c2", "k", "r"] + list(cell.get("new_runs", []))
        for level in range(depth):
            nxt = []
            for live, d, hist, cur_cfg, used_new, saved in frontier:
                for op in ops_all:
                    F = d / "F"
                    if op == "r" and not (F / "calibration_params.json").exists():
                        continue
                    if op.startswith("n:") and (used_new or not (F / "calibration_params.json").exists()):
                        continue
                    if op == "k" and hist and hist[-1] in ("k", "r"):
                        continue
                    d2 = new_dir(d)
                    F2 = d2 / "F"
                    h2 = hist + [op]
                    res["transitions"] += 1
                    wrote, foreign, prev_rel = False, False, "n/a"
                    cfg2 = cur_cfg
                    try:
                        if op in ("c1", "c2"):
                            l2 = copy.deepcopy(live)
                            if l2.saving_folder is not None:
                                l2.saving_folder = str(F2)  # every branch owns its copy of the folder
                            with quiet():
                                l2.calibrate(int(op[1]))
                            wrote = l2.saving_folder is not None
                        elif op == "k":
                            l2 = copy.deepcopy(live)
                            if l2.saving_folder is not None:
                                l2.saving_folder = str(F2)
                            with quiet():
                                l2.create_checkpoint(str(F2))
                            wrote = True
                        elif op == "r":
                            l2 = C.restore(F2, cur_cfg)
                            if l2.saving_folder is not None:
                                l2.saving_folder = str(F2)
                        else:
                            cfg2 = NEW_RUNS[op](cfg)
                            l2 = C.build(dict(cfg2, saving_folder=str(F2)))
                            # how the series file already in the folder relates to the rows the new run has after one batch
                            probe = copy.deepcopy(l2)
                            probe.saving_folder = None
                            with quiet():
                                probe.calibrate(1)
                            prev_rel = series_relation(F2, probe)
                            foreign = True
                            with quiet():
                                l2.calibrate(1)
                            wrote = True
                    except Exception as e:  # noqa: BLE001
                        if isinstance(e, TypeError) and "pickle" in str(e) and cfg.get("scheduler", "rr") != "rr":
                            viol("scheduler-unpicklable:RLScheduler", f"writing a checkpoint of a calibrator with an RL scheduler raised TypeError: {e}", h2)
                        elif op.startswith("n:"):
                            viol("stale-series-file:" + prev_rel, f"a new run saving into a folder that holds another run's checkpoint raised {type(e).__name__}: {e}", h2)
                        else:
                            viol("operation-raises:" + op, f"{type(e).__name__}: {e}", h2)
                        continue
                    res["evaluations"] += 1
                    saved2 = saved
                    if op == "r" and saved is not None:
                        # a restore from an UNCHANGED folder gives back the state that was saved into it - however often it is read and
                        # whatever earlier restored objects have done in the meantime
                        st_r = C.state(l2)
                        if st_r != saved:
                            viol("restored-state-differs:second-restore" if hist.count("r") else "restored-state-differs:on-restore",
                                 f"restore(F) from an unchanged folder differs from the state that was saved: {diff(saved, st_r)[:3]}", h2)
                            continue
                    if wrote:
                        saved2 = C.state(l2)
                    if wrote:
                        res["traces"] += 1
                        res["nontrivial"] += 1
                        vs = check_written(l2, F2, cfg2, prev_rel, foreign)
                        for key, what in vs:
                            viol(key, what, h2)
                            st["violating_states"] = st.get("violating_states", 0) + 1
                        if l2.current_batch_index == 0:
                            st["checkpoints_before_first_batch"] = st.get("checkpoints_before_first_batch", 0) + 1
                        if vs:
                            continue
                    key = (hash(C.state(l2)), folder_digest(F2, cfg2))
                    if key in seen:
                        continue
                    seen.add(key)
                    nxt.append((l2, d2, h2, cfg2, used_new or op.startswith("n:"), saved2))
            frontier = nxt
        res["states"] = len(seen)
        # straight-line re-execution of maximal histories without a new run, each inside a single folder
        leaves = [h for (_l, _d, h, _c, used, _s) in frontier if not used][: cell.get("max_leaves", 40)]
        for h in leaves:
            for key, what in straight_line(cfg, auto, h):
                viol(key, what, h)
            res["evaluations"] += 1
            st["straight_line_histories"] = st.get("straight_line_histories", 0) + 1
        res["outcomes"] = [("depth", depth, "auto", auto, "states", len(seen))]
        res["samples"] = [{"lineup": [s["cls"] for s in cfg["lineup"]], "auto_save": auto, "example_history": frontier[0][2] if frontier else []}]
    return res


# ---------------------------------------------------------------------------------------------
def float_lattice():
    vals = []
    for lo, up, pr in [(0, 1, 0.01), (0, 1, 0.3), (-1, 1, 0.1), (0, 0.95, 0.1), (-3.3, 7.1, 0.7), (1000, 1001, 0.25), (-1e-3, 1e-3, 3e-4), (0, 1e6, 1e5 / 3), (5, 6, 1 / 3),
                       (-2, -1, 0.125), (0, 1, 0.07), (0, 10, 3)]:
        vals += list(np.arange(lo, up + 1e-7, pr))
    for k in range(0, 1001):
        x = k / 1000.0
        vals += [x, np.nextafter(x, 2), np.nextafter(np.nextafter(x, 2), 2), np.nextafter(x, -2), np.nextafter(np.nextafter(x, -2), -2)]
    for e in range(-300, 301, 3):
        for b in (2.0, 10.0):
            try:
                x = b ** (e if b == 10.0 else e * 3)
            except OverflowError:
                continue
            if np.isfinite(x) and x > 0:
                vals += [x, np.nextafter(x, 0), np.nextafter(x, np.inf), -x]
    fi = np.finfo(float)
    vals += [0.0, -0.0, np.inf, -np.inf, fi.max, fi.tiny, fi.tiny / 2**52, 5e-324, -5e-324, fi.eps, 1 / 3, 2 / 3, 0.1 + 0.2, 0.35000000000000003, 1e22, 1e23, 9007199254740993.0, np.nan]
    rng = np.random.default_rng(7)
    vals += list(rng.random(2000)) + list(np.exp(rng.normal(0, 20, 1000)))
    return np.array(vals, dtype=float)


def float_cell(cell):
    from black_it.utils.json_pandas_checkpointing import load_calibrator_state, save_calibrator_state

    res = {"evaluations": 0, "nontrivial": 0, "states": 0, "transitions": 0, "traces": 0, "stats": {}, "outcomes": set(), "violations": [], "samples": []}
    vals = float_lattice()
    n = len(vals)
    params = np.stack([vals, vals[::-1]], axis=1)
    losses = np.roll(vals, 7)
    cal = C.build({"lineup": [{"cls": "Halton", "bs": 1}], "dims": 2, "ensemble": 1})
    series = np.zeros((n, 1, cal.N, cal.D))
    with C.scratch() as tmp:
      try:
        with quiet():
            save_calibrator_state(tmp / "f", cal.param_grid.parameters_bounds, cal.param_grid.parameters_precision, cal.real_data, 1, cal.N, cal.D, None, False, None, 0,
                                  cal.random_generator.bit_generator.state, "gauss2", cal.scheduler, cal.loss_function, 3, n, 1, params, losses, series,
                                  np.arange(n), np.zeros(n, dtype=int))
            got = load_calibrator_state(tmp / "f", 0)
      except Exception as e:  # noqa: BLE001
        res["evaluations"], res["states"], res["nontrivial"] = 3 * n, n, n
        res["violations"].append({"key": "csv-float-roundtrip", "what": f"save->load of a history holding the float lattice (finite, +-0, +-inf, NaN, subnormal) raised {type(e).__name__}: {e}", "case": {"mode": "floats"}})
        return res
    gp, gl = np.asarray(got[17]), np.asarray(got[18])
    res["evaluations"] = 3 * n
    res["traces"] = 1
    res["transitions"] = 1
    res["states"] = n
    res["nontrivial"] = int(np.sum(vals != np.round(vals, 6)))
    for name, a, b in (("params_samp[:,0]", params[:, 0], gp[:, 0] if gp.ndim == 2 and gp.shape == params.shape else None), ("params_samp[:,1]", params[:, 1], gp[:, 1] if gp.ndim == 2 and gp.shape == params.shape else None), ("losses_samp", losses, gl)):
        if b is None or getattr(b, "shape", None) != a.shape or b.dtype != np.float64:
            res["violations"].append({"key": "csv-float-roundtrip", "what": f"{name}: shape/dtype {getattr(b, 'shape', None)}/{getattr(b, 'dtype', None)} after save->load", "case": {"mode": "floats"}})
            continue
        same = (a.view(np.uint64) == b.view(np.uint64)) | (np.isnan(a) & np.isnan(b))
        if not same.all():
            i = int(np.argmin(same))
            res["violations"].append({"key": "csv-float-roundtrip", "what": f"{name}: {int((~same).sum())} of {n} doubles changed through save->load, e.g. {a[i]!r} -> {b[i]!r}", "case": {"mode": "floats"}})
    res["samples"] = [{"floats": [repr(float(x)) for x in vals[[10, 700, 5000, -3]]]}]
    res["outcomes"] = [("floats", n)]
    return res


def long_cell(cell):
    """Larger-scope probe: one long run (well over 64 rows, batch sizes > 1), checkpointed at the end and restored."""
    res = {"evaluations": 0, "nontrivial": 0, "states": 0, "transitions": 0, "traces": 0, "stats": {}, "outcomes": set(), "violations": [], "samples": []}
    cfg = cell["cfg"]
    for auto in (True, False):
        with C.scratch() as root:
            F = root / "F"
            live = C.build(dict(cfg, saving_folder=str(F)) if auto else cfg)
            with quiet():
                live.calibrate(cell["batches"])
                if not auto:
                    live.create_checkpoint(str(F))
            res["evaluations"] += 1
            res["traces"] += 1
            res["nontrivial"] += 1
            res["transitions"] += cell["batches"]
            for key, what in check_written(live, F, cfg, "n/a", False):
                if sum(1 for x in res["violations"] if x["key"] == key) < 1:
                    res["violations"].append({"key": key, "what": f"[long run of {cell['batches']} batches, {live.n_sampled_params} rows, auto_save={auto}] {what}", "case": {"mode": "long", "cfg": cfg, "batches": cell["batches"]}})
            res["stats"]["long_run_rows"] = max(res["stats"].get("long_run_rows", 0), int(live.n_sampled_params))
    res["states"] = 2
    res["outcomes"] = [("long", cell["batches"])]
    return res


def straight_cell(cell):
    """Every sequence over {calibrate(1), create_checkpoint, restore} up to a length bound, executed straight-line in ONE folder and
    WITHOUT state deduplication (so that repeated restores of an unchanged folder, and anything the implementation remembers per
    folder path or per process, are exercised)."""
    import itertools

    res = {"evaluations": 0, "nontrivial": 0, "states": 0, "transitions": 0, "traces": 0, "stats": {}, "outcomes": set(), "violations": [], "samples": []}
    cfg, auto = cell["cfg"], cell["auto"]
    for L in range(1, cell["length"] + 1):
        for ops in itertools.product(("c1", "k", "r"), repeat=L):
            if ops[0] != cell["first"] or ops[-1] == "k" and L > 1 and ops[-2] == "k":
                continue
            # a restore needs something in the folder
            have, ok = False, True
            for o in ops:
                if o == "k" or (o == "c1" and auto):
                    have = True
                if o == "r" and not have:
                    ok = False
                    break
            if not ok:
                continue
            res["evaluations"] += 1
            res["traces"] += 1
            res["transitions"] += L
            if ops.count("r") >= 2:
                res["nontrivial"] += 1
            for key, what in straight_line(cfg, auto, list(ops)):
                if sum(1 for x in res["violations"] if x["key"] == key) < 1:
                    res["violations"].append({"key": key, "what": f"[auto_save={auto}] {what}", "case": {"cfg": cfg, "auto": auto, "ops": list(ops)}})
    res["states"] = res["evaluations"]
    res["outcomes"] = [("straight", cell["first"], auto)]
    res["samples"] = [{"ops": ["c1", "k", "r", "c1", "r"], "auto_save": auto}]
    return res


class _InjectedIOError(OSError):
    pass


def iofault_cell(cell):
    """An OSError at the k-th file opened for writing while calibrate() checkpoints: either calibrate() raises, or - if it returns -
    the folder holds the state it returned with."""
    import builtins
    import io

    import black_it.utils.json_pandas_checkpointing as jp

    res = {"evaluations": 0, "nontrivial": 0, "states": 0, "transitions": 0, "traces": 0, "stats": {}, "outcomes": set(), "violations": [], "samples": []}
    cfg = cell["cfg"]
    k = 0
    while True:
        with C.scratch() as root:
            F = root / "F"
            live = C.build(dict(cfg, saving_folder=str(F)))
            count = [0]
            real_open, real_io_open, real_h5 = builtins.open, io.open, jp.h5py

            def guard(path, mode):
                if str(path).startswith(str(root)) and any(c in mode for c in "wax+"):
                    i = count[0]
                    count[0] += 1
                    if i == k:
                        raise _InjectedIOError(f"injected I/O error at write-open #{k} ({path})")

            def my_open(file, mode="r", *a, **kw):
                if not isinstance(file, int):
                    guard(file, mode)
                return real_open(file, mode, *a, **kw)

            class H5:
                def __getattr__(self, name):
                    return getattr(real_h5, name)

                def File(self, path, mode="r", **kw):  # noqa: N802
                    guard(path, mode)
                    return real_h5.File(path, mode=mode, **kw)

            builtins.open = io.open = my_open
            jp.h5py = H5()
            raised = None
            try:
                with quiet():
                    live.calibrate(cell["batches"])
            except Exception as e:  # noqa: BLE001
                raised = e
            finally:
                builtins.open, io.open, jp.h5py = real_open, real_io_open, real_h5
            if count[0] <= k:
                break   # fewer write-opens than k: every position has been tried
            res["evaluations"] += 1
            res["traces"] += 1
            res["nontrivial"] += 1
            res["outcomes"].add(("io-fault", "raised" if raised is not None else "returned"))
            if raised is None:
                try:
                    rest = C.restore(F, cfg)
                    ok = C.state(rest, with_folder=True) == C.state(live, with_folder=True)
                    why = "" if ok else f": {diff(C.state(live, with_folder=True), C.state(rest, with_folder=True))[:3]}"
                except Exception as e:  # noqa: BLE001
                    ok, why = False, f": restore raised {type(e).__name__}: {e}"
                if not ok:
                    if sum(1 for x in res["violations"] if x["key"] == "returned-although-checkpoint-failed") < 1:
                        res["violations"].append({"key": "returned-although-checkpoint-failed", "what": f"an I/O error at write-open #{k} during calibrate({cell['batches']}) was not propagated and the folder does not hold the returned state{why}",
                                                  "case": {"mode": "iofault", "cfg": cfg, "batches": cell["batches"], "k": k}})
        k += 1
    res["states"] = k
    res["stats"]["io_fault_positions"] = k
    return res


TRICKY_NAMES = ["plain", "run#1", "p%3D1", "a?b=c", "with space", "dot.d", "q'uote", "ünï-код", "100%", "semi;colon", "amp&and", "[brackets]", "tilde~", "trailing."]
DECOYS = ["run", "p=1", "a", "100", "dot"]   # what a URI-style reading of some of the names above would resolve to


def paths_cell(cell):
    """Folder names are arbitrary strings (or pathlib.Path objects, absolute or relative to a working directory that changes
    between save and restore): a checkpoint written to F is read back from F, by both back-ends, whatever F is called and
    whatever lies next to it."""
    import os
    from pathlib import Path

    from black_it.utils import sqlite3_checkpointing as sq

    res = {"evaluations": 0, "nontrivial": 0, "states": 0, "transitions": 0, "traces": 0, "stats": {}, "outcomes": set(), "violations": [], "samples": []}
    cfg = cell["cfg"]

    def viol(key, what, case):
        if sum(1 for x in res["violations"] if x["key"] == key) < 1:
            res["violations"].append({"key": key, "what": what, "case": case})

    with C.scratch() as root:
        live = C.build(dict(cfg, saving_folder=None))
        other = C.build(dict(cfg, saving_folder=None, seed=(cfg.get("seed") or 0) + 11))
        with quiet():
            live.calibrate(2)
            other.calibrate(3)
        # decoys: complete checkpoints of ANOTHER run under the names a mis-parsed path would resolve to
        for dn in DECOYS:
            with quiet():
                other.create_checkpoint(str(root / "json" / dn))
                sq.save_calibrator_state(root / "sql" / dn, *_sq_comps(other))
        want = C.state(live)
        want_sq = [canon(x) for x in _sq_comps(live)]
        cwd0 = os.getcwd()
        try:
            for name in cell["names"]:
                for style in ("str", "Path", "relative"):
                    case = {"mode": "paths", "cfg": cfg, "names": [name]}
                    res["evaluations"] += 2
                    res["transitions"] += 2
                    res["traces"] += 1
                    res["nontrivial"] += 1
                    # JSON/CSV/HDF5 back-end through the public API
                    try:
                        os.chdir(root / "json")
                        target = {"str": str(root / "json" / name), "Path": root / "json" / name, "relative": name}[style]
                        if style == "Path":
                            _plant_decoys(root / "json" / name, root / "json" / DECOYS[0], other)
                        with quiet():
                            live.create_checkpoint(target)
                        if style == "relative":
                            os.chdir(root)           # the working directory changes between save and restore
                            target = str(Path("json") / name)
                        with quiet():
                            rest = C.restore(target, cfg)
                        got = C.state(rest)
                        if got != want:
                            viol("restored-state-differs:path", f"checkpoint written to the folder {name!r} ({style}) restores as another state: {diff(want, got)[:3]}", case)
                        elif style == "str" and any(ord(ch) > 127 for ch in name):
                            # the same folder read back by ANOTHER interpreter whose locale encoding is not UTF-8 (C locale, UTF-8 mode off):
                            # the folder is copied to an ASCII path first, so only the file CONTENTS carry non-ASCII text
                            import subprocess
                            import sys as _sys

                            from vf.canon import digest

                            # (a run whose SAVING FOLDER carries the name, so that the name is part of the stored configuration)
                            auto = C.build(dict(cfg, saving_folder=str(root / "json" / (name + "_auto"))))
                            with quiet():
                                auto.calibrate(2)
                            want_auto = C.state(auto)
                            ascii_copy = root / "json" / "ascii_copy"
                            shutil.rmtree(ascii_copy, ignore_errors=True)
                            shutil.copytree(root / "json" / (name + "_auto"), ascii_copy)
                            env = dict(os.environ, LC_ALL="C", LANG="C", PYTHONUTF8="0", PYTHONCOERCECLOCALE="0", PYTHONIOENCODING="utf-8")
                            pr = subprocess.run([_sys.executable, "-m", "vf.checks.c04_sub", str(ascii_copy), json.dumps(cfg)], capture_output=True, text=True, env=env, check=False)
                            line = [ln for ln in pr.stdout.splitlines() if ln.startswith(("STATE ", "RAISED "))]
                            res["evaluations"] += 1
                            if not line:
                                viol("restore-raises:other-locale", f"restoring the folder in an interpreter under the C locale failed: {pr.stderr[-300:]}", case)
                            elif line[0].startswith("RAISED"):
                                viol("restore-raises:other-locale", f"a checkpoint whose saving folder was {name!r} cannot be restored by an interpreter under the C locale: {line[0][7:]}", case)
                            elif line[0] != "STATE " + digest(want_auto):
                                viol("restored-state-differs:other-locale", f"a checkpoint whose saving folder was {name!r} restores as another state in an interpreter under the C locale", case)
                    except Exception as e:  # noqa: BLE001
                        viol("restore-raises:path", f"save/restore through the folder {name!r} ({style}) raised {type(e).__name__}: {e}", case)
                    finally:
                        os.chdir(cwd0)
                    # SQLite back-end
                    try:
                        os.chdir(root / "sql")
                        target = {"str": str(root / "sql" / name), "Path": root / "sql" / name, "relative": name}[style]
                        with quiet():
                            sq.save_calibrator_state(target, *_sq_comps(live))
                            got = [canon(x) for x in sq.load_calibrator_state(target)]
                        bad = [i for i, (a, b) in enumerate(zip(want_sq, got)) if a != b and i != 7]
                        if bad:
                            viol("sqlite-component-differs:path", f"SQLite checkpoint written to the folder {name!r} ({style}) loads with different components (positions {bad})", case)
                        stray = sorted(p.name for p in (root / "sql").iterdir() if p.name not in DECOYS and p.name not in TRICKY_NAMES)
                        if stray:
                            viol("sqlite-stray-file", f"loading the folder {name!r} created {stray} next to it", case)
                    except Exception as e:  # noqa: BLE001
                        viol("sqlite-raises:path", f"SQLite save/load through the folder {name!r} ({style}) raised {type(e).__name__}: {e}", case)
                    finally:
                        os.chdir(cwd0)
                    res["outcomes"].add(("path", style))
        finally:
            os.chdir(cwd0)
    res["states"] = res["evaluations"]
    res["outcomes"] = sorted(res["outcomes"])
    return res


def _plant_decoys(folder, donor, other):
    """Files that do not belong to the checkpoint format but may well lie in a long-lived folder: back-ups, compressed siblings,
    the sampler list that releases before 0.3 stored, a checkpoint of the OTHER back-end. All are valid files of another run."""
    import gzip
    import pickle

    from black_it.utils import sqlite3_checkpointing as sq

    folder.mkdir(parents=True, exist_ok=True)
    for f in donor.iterdir():
        if f.is_file():
            data = f.read_bytes()
            (folder / (f.name + ".bak")).write_bytes(data)
            (folder / (f.name + ".tmp")).write_bytes(data)
            with gzip.open(folder / (f.name + ".gz"), "wb") as z:
                z.write(data)
    (folder / "samplers_pickled.pickle").write_bytes(pickle.dumps(list(other.scheduler.samplers)[::-1]))
    with quiet():
        sq.save_calibrator_state(folder, *_sq_comps(other))


def _sq_comps(live):
    return [live.param_grid.parameters_bounds, live.param_grid.parameters_precision, live.real_data, live.ensemble_size, live.N, live.D,
            live.convergence_precision, live.verbose, live.saving_folder, live.random_state, live.random_generator.bit_generator.state,
            live.model.__name__, live.scheduler, live.loss_function, live.current_batch_index, live.params_samp, live.losses_samp,
            live.series_samp, live.batch_num_samp, live.method_samp]


def run_cell(cell):
    if cell["kind"] == "paths":
        return paths_cell(cell)
    if cell["kind"] == "straight":
        return straight_cell(cell)
    if cell["kind"] == "long":
        return long_cell(cell)
    if cell["kind"] == "iofault":
        return iofault_cell(cell)
    return float_cell(cell) if cell["kind"] == "floats" else bfs(cell)


def replay_case(case):
    if case.get("mode") == "floats":
        r = float_cell({})
        return [{"key": v["key"], "what": v["what"]} for v in r["violations"]]
    if case.get("mode") == "paths":
        r = paths_cell({"cfg": case["cfg"], "names": case["names"]})
        return [{"key": v["key"], "what": v["what"]} for v in r["violations"]]
    if case.get("mode") == "long":
        r = long_cell({"cfg": case["cfg"], "batches": case["batches"]})
        return [{"key": v["key"], "what": v["what"]} for v in r["violations"]]
    if case.get("mode") == "iofault":
        r = iofault_cell({"cfg": case["cfg"], "batches": case["batches"]})
        return [{"key": v["key"], "what": v["what"]} for v in r["violations"]]
    # re-execute the single history straight-line (no BFS)
    cfg, auto, ops = case["cfg"], case["auto"], case["ops"]
    sl = straight_line(cfg, auto, ops)
    # (both re-executions are reported: the one-folder straight line and the step-by-step one, whose keys are those of the search)
    out = [{"key": k, "what": w} for k, w in sl]
    with C.scratch() as root:
        F = root / "F"
        live = C.build(dict(cfg, saving_folder=str(F)) if auto else cfg)
        cur_cfg = cfg
        for i, op in enumerate(ops):
            wrote, foreign, prev_rel = False, False, "n/a"
            try:
                if op in ("c1", "c2"):
                    with quiet():
                        live.calibrate(int(op[1]))
                    wrote = live.saving_folder is not None
                elif op == "k":
                    with quiet():
                        live.create_checkpoint(str(F))
                    wrote = True
                elif op == "r":
                    live = C.restore(F, cur_cfg)
                else:
                    cur_cfg = NEW_RUNS[op](cfg)
                    live = C.build(dict(cur_cfg, saving_folder=str(F)))
                    probe = copy.deepcopy(live)
                    probe.saving_folder = None
                    with quiet():
                        probe.calibrate(1)
                    prev_rel = series_relation(F, probe)
                    foreign = True
                    with quiet():
                        live.calibrate(1)
                    wrote = True
            except Exception as e:  # noqa: BLE001
                if isinstance(e, TypeError) and "pickle" in str(e) and cfg.get("scheduler", "rr") != "rr":
                    return [{"key": "scheduler-unpicklable:RLScheduler", "what": str(e)}]
                if op.startswith("n:"):
                    return [{"key": "stale-series-file:" + prev_rel, "what": f"{type(e).__name__}: {e}"}]
                return [{"key": "operation-raises:" + op, "what": f"{type(e).__name__}: {e}"}]
            if wrote and i == len(ops) - 1:
                out += [{"key": k, "what": w} for k, w in check_written(live, F, cur_cfg, prev_rel, foreign)]
    return out


def main(ctx):
    S = ctx.seed
    depth = 4 if ctx.quick else 5
    cells = [{"kind": "floats"}]
    lineups = [
        [{"cls": "Halton", "bs": 2}, {"cls": "RandomUniform", "bs": 2}],
        [{"cls": "RSequence", "bs": 3}, {"cls": "BestBatch", "bs": 2}],
        [{"cls": "Halton", "bs": 3}, {"cls": "ParticleSwarm", "bs": 2}, {"cls": "CORS", "bs": 1}],
        [{"cls": "Halton", "bs": 3}, {"cls": "XGBoost", "bs": 2}],
        [{"cls": "Halton", "bs": 3}, {"cls": "GaussianProcess", "bs": 1}, {"cls": "RandomForest", "bs": 2}],
    ]
    for i, lu in enumerate(lineups):
        for auto in (False, True):
            cfg = {"lineup": lu, "seed": S + i, "dims": 2, "model": "gauss2", "ensemble": 1 + i % 2, "loss": ["minkowski", "minkowski_filtered", "msm", "minkowski", "gsl"][i],
                   "convergence_precision": 0 if i == 3 else None}
            cells.append({"kind": "bfs", "cfg": cfg, "depth": (depth if i < 2 or not ctx.quick else depth - 1) + (1 if (not ctx.quick and i < 2) else 0), "auto": auto, "new_runs": list(NEW_RUNS) if i in (0, 1) else ["n:seed"]})
    # seed None (OS entropy): the restored object must still equal the saved one
    cells.append({"kind": "bfs", "cfg": {"lineup": lineups[0], "seed": None, "dims": 2, "model": "gauss2", "ensemble": 1}, "depth": 3, "auto": True, "new_runs": []})
    # documented options away from their defaults: simulation length != real length, convergence precision, verbose, ensemble 3
    cells.append({"kind": "bfs", "cfg": {"lineup": lineups[0], "seed": S, "dims": 2, "model": "gauss2", "ensemble": 3, "sim_length": 13, "T": 8, "loss": "msm", "convergence_precision": 6, "verbose": True}, "depth": 3, "auto": True, "new_runs": []})
    cells.append({"kind": "bfs", "cfg": {"lineup": lineups[2], "seed": S, "dims": 1, "model": "gauss2", "ensemble": 1, "sim_length": 11, "T": 8, "loss": "msm"}, "depth": 3, "auto": False, "new_runs": []})
    cells.append({"kind": "bfs", "cfg": {"lineup": lineups[2], "seed": None, "dims": 1, "model": "gauss2", "ensemble": 1}, "depth": 3, "auto": False, "new_runs": []})
    # more than ten parameters (column naming / ordering of the results table)
    cells.append({"kind": "bfs", "cfg": {"lineup": lineups[0], "seed": S, "dims": 12, "model": "gauss2", "ensemble": 1}, "depth": 2, "auto": True, "new_runs": []})
    # larger-scope probe: four samplers, batch sizes up to 8, ensemble 4, longer series
    cells.append({"kind": "bfs", "cfg": {"lineup": [{"cls": "Halton", "bs": 8}, {"cls": "BestBatch", "bs": 5}, {"cls": "ParticleSwarm", "bs": 4}, {"cls": "RSequence", "bs": 3}], "seed": S, "dims": 4, "model": "gauss2", "ensemble": 4, "T": 60},
                  "depth": 3, "auto": True, "new_runs": ["n:seed"]})
    for auto in (False, True):
        for first in ("c1", "k"):
            cells.append({"kind": "straight", "cfg": {"lineup": lineups[0], "seed": S, "dims": 2, "model": "gauss2", "ensemble": 1}, "auto": auto, "first": first, "length": 5 if ctx.quick else 6})
    cells.append({"kind": "long", "cfg": {"lineup": [{"cls": "Halton", "bs": 8}, {"cls": "BestBatch", "bs": 5}, {"cls": "RandomUniform", "bs": 4}], "seed": S, "dims": 2, "model": "gauss2", "ensemble": 1}, "batches": 24})
    for i in range(0, len(TRICKY_NAMES), 4):
        cells.append({"kind": "paths", "cfg": {"lineup": lineups[0], "seed": S, "dims": 2, "model": "gauss2", "ensemble": 1}, "names": TRICKY_NAMES[i:i + 4]})
    cells.append({"kind": "iofault", "cfg": {"lineup": lineups[0], "seed": S, "dims": 2, "model": "gauss2", "ensemble": 1}, "batches": 2})
    # RL scheduler
    cells.append({"kind": "bfs", "cfg": {"lineup": lineups[0], "seed": S, "dims": 2, "model": "gauss2", "ensemble": 1, "scheduler": {"eps": 0.3, "agent_seed": 1}}, "depth": 2, "auto": True, "new_runs": []})
    ctx.bounds = {"depth": depth, "ops": ["calibrate(1)", "calibrate(2)", "create_checkpoint", "restore", "new run in same folder (seed/line-up/batch size/ensemble variants)"],
                  "lineups": [[s["cls"] for s in lu] for lu in lineups], "auto_save": [False, True], "float_lattice": int(len(float_lattice()))}
    ctx.rule = ("BFS over operation histories, states deduplicated on (canonical live state, what the folder loads as); evaluations = operations executed (+ floats compared); "
                "non-trivial = operations that wrote the folder, each followed by restore + compare + one more batch + SQLite round trip")
    ctx.assumptions = ["branching by deepcopy of the live calibrator and copy of the folder", "canonical state as in vf/canon.py; NaN compared as NaN"]
    ctx.pmap("vf.checks.c04:run_cell", cells)
    ctx.require(ctx.stats.get("checkpoints_before_first_batch", 0) > 0, "no checkpoint taken before the first batch")
    ctx.require(ctx.nontrivial > 200, "too few checkpoint writes explored")
