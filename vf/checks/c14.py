"""C14 - early stopping happens exactly when the best loss rounds to zero (E2).

The loss is scripted through the model: one parameter, MinkowskiLoss(p=1), real data [[0]], simulation length 1,
ensemble 1 and a model returning the next value of a script, so losses_samp IS the script. Every script of a fixed
length over a small alphabet (no value within 1e-9 of a rounding half-way point) x precision x verbosity x requested
batches, followed by a second calibrate(); with a saving folder the checkpoint must hold the returned state.
"""
from __future__ import annotations

import itertools

import numpy as np

from vf import models
from vf.canon import diff
from vf.core import quiet
from vf.opseq import cal as C

ID = "C14"
TITLE = "Early stopping happens exactly when the best loss rounds to zero"
ALPHA_Q = [4e-1, 4e-3, 4e-9, 0.0]
ALPHA_T = [4e-1, 4e-2, 4e-3, 4e-5, 4e-9, 4e-13, 0.0]


def converged(x, p):
    return abs(x) < 0.5 * 10.0 ** (-p)


def ref_calls(script, bs, p, calls):
    """Reference: number of batches each calibrate(n) call runs; script values consumed bs per batch."""
    losses, out = [], []

    def val(k):
        return script[k] if k < len(script) else script[-1]

    for n in calls:
        ran = 0
        for _ in range(n):
            losses += [abs(val(len(losses) + j)) for j in range(bs)]
            ran += 1
            if p is not None and converged(min(losses), p):
                break
        out.append(ran)
    return out, losses


def run_case(case):
    """case: script, bs, p, verbose, folder(bool), calls. Returns violations."""
    from black_it.calibrator import Calibrator
    from black_it.loss_functions.minkowski import MinkowskiLoss
    from black_it.samplers.random_uniform import RandomUniformSampler

    script, bs, p, calls = case["script"], case["bs"], case["p"], case["calls"]
    exp_ran, exp_losses = ref_calls(script, bs, p, calls)
    v = []
    models.reset(script=script)
    with C.scratch() as tmp:
        folder = str(tmp / "ck") if case["folder"] else None
        with quiet():
            cal = Calibrator(loss_function=MinkowskiLoss(p=1), real_data=np.zeros((1, 1)), model=models.model_script,
                             parameters_bounds=[[0.0], [1.0]], parameters_precision=[0.001], ensemble_size=1,
                             samplers=[RandomUniformSampler(batch_size=bs)], sim_length=1, convergence_precision=p,
                             verbose=case["verbose"], saving_folder=folder, random_state=case.get("seed", 0), n_jobs=1)
        total = 0
        for ci, n in enumerate(calls):
            with quiet():
                ret = cal.calibrate(n)
            total += exp_ran[ci]
            tag = f"script={script} bs={bs} precision={p} verbose={case['verbose']} folder={case['folder']} calls={calls} (call #{ci})"
            if cal.current_batch_index != total:
                key = "no-stop-when-quiet" if (cal.current_batch_index > total and not case["verbose"]) else ("stopped-late" if cal.current_batch_index > total else "stopped-early")
                v.append((key, f"{tag}: {cal.current_batch_index} batches done, the rule gives {total}"))
                return v
            if cal.n_sampled_params != total * bs or len(cal.losses_samp) != total * bs or len(ret[1]) != total * bs:
                v.append(("history-length", f"{tag}: n_sampled_params={cal.n_sampled_params}, {len(cal.losses_samp)} losses, {len(ret[1])} returned; expected {total * bs}"))
                return v
            if not np.array_equal(cal.losses_samp, np.array(exp_losses[:total * bs])):
                v.append(("scripted-losses", f"{tag}: losses {cal.losses_samp.tolist()} != script prefix {exp_losses[:total * bs]}"))
                return v
            if not np.array_equal(cal.batch_num_samp, np.repeat(np.arange(total), bs)):
                v.append(("batch-labels", f"{tag}: batch_num_samp {cal.batch_num_samp.tolist()}"))
                return v
            if folder is not None:
                try:
                    rest = C.restore(folder, {"model": "model_script"})
                except Exception as e:  # noqa: BLE001
                    v.append(("stop-batch-not-checkpointed", f"{tag}: restore failed with {type(e).__name__}: {e}"))
                    return v
                a, b = C.state(cal), C.state(rest)
                if a != b:
                    d = diff(a, b)
                    key = "stop-batch-not-checkpointed" if rest.current_batch_index != cal.current_batch_index else "checkpoint-differs"
                    v.append((key, f"{tag}: the folder holds batch {rest.current_batch_index}, calibrate() returned at batch {cal.current_batch_index}; diff {d[:3]}"))
                    return v
    return v


def run_disturbed_case(case):
    """Histories that are not plain: (a) a user-defined scheduler whose update() hook raises once (the caller catches it and goes
    on), (b) a script containing a NaN loss. The rule is then judged on what the calibrator itself RECORDED: within a call, no batch
    before the last may already have a recorded minimum that rounds to zero (stopped late), a call cut short must have one (stopped
    early), and the recorded losses are the scripted ones, NaN included. How a NaN enters 'the smallest loss' is not asserted."""
    from black_it.calibrator import Calibrator
    from black_it.loss_functions.minkowski import MinkowskiLoss
    from black_it.samplers.random_uniform import RandomUniformSampler
    from black_it.schedulers.round_robin import RoundRobinScheduler

    script, bs, p, calls, fail_at = case["script"], case["bs"], case["p"], case["calls"], case.get("update_fails_at")

    class Hooked(RoundRobinScheduler):
        n_updates = 0

        def update(self, *a, **k):
            i = Hooked.n_updates
            Hooked.n_updates += 1
            if i == fail_at:
                raise RuntimeError(f"user hook failed in update #{i}")
            return super().update(*a, **k)

    from black_it.loss_functions.base import BaseLoss

    class FirstAbs(BaseLoss):   # a user-defined loss that lets a NaN through (scipy's Minkowski norm rejects non-finite input)
        def compute_loss_1d(self, sim, real):  # noqa: ARG002
            return float(np.abs(np.asarray(sim).ravel()[0]))

    models.reset(script=script)
    v = []
    with quiet():
        cal = Calibrator(loss_function=FirstAbs() if any(x != x for x in script) else MinkowskiLoss(p=1), real_data=np.zeros((1, 1)), model=models.model_script, parameters_bounds=[[0.0], [1.0]],
                         parameters_precision=[0.001], ensemble_size=1, scheduler=Hooked([RandomUniformSampler(batch_size=bs)]), sim_length=1,
                         convergence_precision=p, verbose=case["verbose"], saving_folder=None, random_state=0, n_jobs=1)
    tag = f"script={script} bs={bs} precision={p} calls={calls} update() failing at #{fail_at}"
    for ci, n in enumerate(calls):
        rows0, sims0 = len(cal.losses_samp), models.N_CALLS
        raised = False
        try:
            with quiet():
                cal.calibrate(n)
        except RuntimeError:
            raised = True
        ran = (models.N_CALLS - sims0) // bs                 # batches simulated in this call
        L = np.asarray(cal.losses_samp, dtype=float)
        exp = [abs(x) for x in (list(script) + [script[-1]] * (models.N_CALLS))[:models.N_CALLS]]
        if len(L) > len(exp) or not np.array_equal(L, np.array(exp[:len(L)]), equal_nan=True):
            return [("scripted-losses", f"{tag} (call #{ci}): recorded losses {L.tolist()} are not the scripted ones {exp[:len(L)]}")]
        if np.isnan(L).any() or raised:
            continue   # the stop decision is only judged on calls that returned and on NaN-free histories
        for j in range(1, ran):
            upto = L[:rows0 + j * bs]
            if p is not None and len(upto) and converged(float(np.min(upto)), p):
                v.append(("stopped-late", f"{tag} (call #{ci}): ran {ran} batches although the recorded minimum {float(np.min(upto))} rounded to zero after {j}; recorded {L.tolist()}, n_sampled_params={cal.n_sampled_params}"))
                return v
        if ran < n and not (p is not None and len(L) and converged(float(np.min(L)), p)):
            v.append(("stopped-early", f"{tag} (call #{ci}): ran {ran} of {n} batches, the recorded minimum {float(np.min(L)) if len(L) else None} does not round to zero"))
            return v
    return v


def disturbed_cell(cell):
    res = {"evaluations": 0, "nontrivial": 0, "states": 0, "transitions": 0, "traces": 0, "stats": {}, "outcomes": set(), "violations": [], "samples": []}
    for case in cell["cases"]:
        vs = run_disturbed_case(case)
        res["evaluations"] += 1
        res["traces"] += 1
        res["transitions"] += len(case["calls"])
        res["nontrivial"] += 1
        res["outcomes"].add(("disturbed", case.get("update_fails_at") is not None, any(x != x for x in case["script"])))
        for key, what in vs:
            if sum(1 for x in res["violations"] if x["key"] == key) < 1:
                res["violations"].append({"key": key, "what": what, "case": dict(case, disturbed=True)})
    res["states"] = res["evaluations"]
    res["outcomes"] = sorted(res["outcomes"], key=repr)
    return res


def run_cell(cell):
    if cell.get("kind") == "disturbed":
        return disturbed_cell(cell)
    res = {"evaluations": 0, "nontrivial": 0, "states": 0, "transitions": 0, "traces": 0, "stats": {}, "outcomes": set(), "violations": [], "samples": []}
    alpha = cell["alphabet"]
    for tail in itertools.product(alpha, repeat=cell["length"] - len(cell["first"])):
        script = list(cell["first"]) + list(tail)
        for p in cell["precisions"]:
            for verbose in (False, True):
                for calls in cell["calls"]:
                    case = {"script": script, "bs": cell["bs"], "p": p, "verbose": verbose, "folder": cell["folder"], "calls": calls, "seed": cell.get("seed", 0)}
                    vs = run_case(case)
                    res["evaluations"] += 1
                    res["traces"] += 1
                    res["transitions"] += len(calls)
                    exp_ran, _ = ref_calls(script, cell["bs"], p, calls)
                    early = exp_ran != list(calls)
                    if early:
                        res["nontrivial"] += 1
                    res["outcomes"].add((tuple(exp_ran), p is None))
                    for key, what in vs:
                        if sum(1 for x in res["violations"] if x["key"] == key) < 1:
                            res["violations"].append({"key": key, "what": what, "case": case})
    res["states"] = res["evaluations"]
    res["samples"] = [{"script": list(cell["first"]) + [alpha[0]] * (cell["length"] - len(cell["first"])), "precision": cell["precisions"][-1], "calls": cell["calls"][0]}]
    res["outcomes"] = sorted(res["outcomes"], key=repr)
    return res


def replay_case(case):
    if case.get("disturbed"):
        return [{"key": k, "what": w} for k, w in run_disturbed_case(case)]
    return [{"key": k, "what": w} for k, w in run_case(case)]


def main(ctx):
    alpha = ALPHA_Q if ctx.quick else ALPHA_T
    precs = [None, 0, 1, 2, 4, 8, 12] if ctx.quick else [None] + list(range(0, 13))
    cells = []
    L = 4
    for first in itertools.product(alpha, repeat=2):
        cells.append({"alphabet": alpha, "length": L, "first": list(first), "bs": 1, "precisions": precs, "folder": False, "calls": [[1, 2], [2, 2], [3, 2], [4, 1]], "seed": ctx.seed})
        cells.append({"alphabet": alpha, "length": L, "first": list(first), "bs": 2, "precisions": precs, "folder": False, "calls": [[1, 1], [2, 1]], "seed": ctx.seed})
        cells.append({"alphabet": alpha, "length": L, "first": list(first), "bs": 1, "precisions": [None, 2, 8] if ctx.quick else [None, 0, 2, 8, 12], "folder": True, "calls": [[2, 2], [3, 1]], "seed": ctx.seed})
    dc = []
    for script in itertools.product((4.0, 0.3, 0.0), repeat=6):
        for k in (0, 1, 2):
            dc.append({"script": list(script), "bs": 2, "p": 0, "calls": [2, 3], "update_fails_at": k, "verbose": k % 2 == 0})
    for script in itertools.product((4.0, 0.3, float("nan")), repeat=4):
        if any(x != x for x in script):
            for p in (0, 2, None):
                dc.append({"script": list(script) + [5.0], "bs": 1, "p": p, "calls": [2, 3], "update_fails_at": None, "verbose": False})
    for i in range(8):
        cells.append({"kind": "disturbed", "cases": dc[i::8]})
    ctx.bounds = {"disturbed_histories": f"{len(dc)}: a scheduler update() hook raising at its call 0..2 (caught, then further calls); scripts with NaN losses", "alphabet": alpha, "script_length": L, "precisions": precs, "verbose": [False, True], "batch_sizes": [1, 2],
                  "calls": "first call of 1..4 batches then a second call", "saving_folder": "subset of precisions, both verbosities"}
    ctx.rule = "every script over the alphabet x precision x verbosity x call pattern; non-trivial = the rule stops a call before its requested number of batches"
    ctx.assumptions = ["alphabet values are not within 1e-9 of a rounding half-way point, so round(x,p)==0 <=> |x| < 0.5*10^-p"]
    ctx.pmap("vf.checks.c14:run_cell", cells)
    ctx.require(ctx.nontrivial > 100, "too few early-stopping cases")
