"""Helper of C04: restore a checkpoint folder in ANOTHER interpreter (other locale / encoding settings), print the digest of the state."""
from __future__ import annotations

import json
import sys


def main():
    from vf.canon import digest
    from vf.opseq import cal as C

    folder, cfg = sys.argv[1], json.loads(sys.argv[2])
    try:
        rest = C.restore(folder, cfg)
        print("STATE " + digest(C.state(rest)))
    except Exception as e:  # noqa: BLE001
        print(f"RAISED {type(e).__name__}: {str(e)[:200]}")


if __name__ == "__main__":
    main()
