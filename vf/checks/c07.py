"""C07 - each built-in loss computes its published definition (E4).

Data over tiny value alphabets (ties, constants and bin-edge hits are the norm): every real/simulated series in {0,1}^T, six shaped
series over {0,1,2} and six over 12 evenly spaced levels, T in {3,4,5} (8, 9 for the moments), ensemble sizes 1..3, 1..2
coordinates, x every option vector of the five built-in losses (p; f x both frequency filters; nb_values x nb_word_lengths;
weighting x standardisation x moment calculator; bandwidth rule/value; coordinate weights; coordinate filters). ONE loss object per
option vector is evaluated on the whole data sweep (lengths and dimensions interleaved), each value compared with an independent
reference (vf/refs/losses_ref.py).
"""
from __future__ import annotations

import itertools
import math

import numpy as np

from vf.refs import losses_ref as R

ID = "C07"
TITLE = "Each built-in loss computes its published definition"
RTOL = 1e-9


def negate(x):
    return -x


def cumsum(x):
    return np.cumsum(x)


def double(x):
    return 2.0 * x


def halve(x):
    return x / 2.0


FILTERS = {"negate": negate, "cumsum": cumsum, "double": double, "halve": halve}


def pool(T, kind):
    t = np.arange(T)
    if kind == "bin":
        if T > 10:  # the full cube is only enumerated for short series; longer ones use eight fixed binary patterns
            return [np.array(v, dtype=float) for v in (np.zeros(T), np.ones(T), t % 2, (t // 2) % 2, (t % 3 == 0), (t < T // 2), (t * t) % 2, ((t * 7) % 5 < 2))]
        return [np.array(b, dtype=float) for b in itertools.product((0.0, 1.0), repeat=T)]
    if kind == "three":
        return [np.array(v, dtype=float) for v in (t % 3, (2 - t) % 3, np.where(t % 2 == 0, 0, 2), np.where(t < 2, 2, (t % 2)), np.where(t == T - 1, 2, 1), np.ones(T))]
    if kind == "twelve":
        return [np.array(v, dtype=float) for v in ((t * 5) % 12, (t * 7 + 3) % 12, (11 - t) % 12, np.full(T, 4), (t * t) % 12, np.where(t % 2 == 0, 0, 11))]
    raise ValueError(kind)


def data_cases(T, tier, heavy=False):
    """Yield (sim (E,T,D), real (T,D)) systematically. heavy=True: the reduced lattice used for costly losses / long series."""
    P = pool(T, "bin") + pool(T, "three") + pool(T, "twelve")
    Q = pool(T, "three")[:4] + pool(T, "twelve")[:2]
    Q3 = [Q[0], Q[2], Q[4], P[1]]
    if heavy:
        binp = pool(T, "bin")
        P = binp[:: max(1, len(binp) // 6)][:6] + pool(T, "three")[:4] + pool(T, "twelve")[:4]
        Q = [Q[0], Q[2], Q[4], Q[5]]
        Q3 = [Q3[0], Q3[2], Q3[3]] if tier != "quick" else [Q3[0], Q3[2]]
    for r in P:
        for s in P:
            yield np.stack([s])[:, :, None], r[:, None]
    for r in P[:: 2 if tier == "quick" else 1]:
        for s1, s2 in itertools.product(Q, repeat=2):
            yield np.stack([s1, s2])[:, :, None], r[:, None]
    for r in Q:
        for s in itertools.product(Q3, repeat=3):
            yield np.stack(s)[:, :, None], r[:, None]
    for r1, r2 in itertools.product(Q if not heavy else Q[:3], repeat=2):
        for s1, s2 in itertools.product(Q3, repeat=2):
            yield np.stack([np.stack([s1, s2], axis=1)]), np.stack([r1, r2], axis=1)
            yield np.stack([np.stack([s1, s2], axis=1), np.stack([s2, r1], axis=1)]), np.stack([r1, r2], axis=1)


def close(a, b, tol):
    return abs(a - b) <= tol * max(1.0, abs(b))


def sweep(res, name, opts_label, impl, ref, cases, tol=RTOL, classify=None, opts=None):
    und = 0
    first = prev = None
    for sim, real in cases:
        hist = [x for x in (first, prev) if x is not None]
        first = first if first is not None else (sim, real)
        prev = (sim, real)
        res["_hist"] = hist
        res["evaluations"] += 1
        res["transitions"] += 1
        D = real.shape[1]
        try:
            with np.errstate(all="ignore"):
                expected = float(ref(sim, real))
        except (ZeroDivisionError, ValueError, FloatingPointError, OverflowError):
            expected = float("nan")
        try:
            with np.errstate(all="ignore"):
                got = float(impl(sim, real))
        except Exception as e:  # noqa: BLE001
            if expected == expected and abs(expected) != float("inf"):
                _viol(res, f"{name}:raises", f"{name}({opts_label}) raised {type(e).__name__}: {e} on sim{list(sim.shape)}; reference value {expected!r}", name, opts, sim, real)
            else:
                und += 1
            continue
        if not (expected == expected) or abs(expected) == float("inf") or not (got == got) or abs(got) == float("inf"):
            und += 1
            continue
        if len(np.unique(sim)) > 1 or sim.shape[0] > 1:
            res["nontrivial"] += 1
        if not close(got, expected, tol):
            key = f"{name}:{opts_label}"
            if classify is not None:
                key = classify(sim, real, got, expected) or key
            _viol(res, key, f"{name}({opts_label}) = {got!r}, reference {expected!r} on sim shape {list(sim.shape)}, real {real.T.tolist()}, sim {sim.transpose(0, 2, 1).tolist()}", name, opts, sim, real)
    res["stats"]["undefined_by_definition"] = res["stats"].get("undefined_by_definition", 0) + und


def _viol(res, key, what, name, opts_label, sim, real):
    res["stats"]["violating:" + key] = res["stats"].get("violating:" + key, 0) + 1
    if sum(1 for x in res["violations"] if x["key"] == key) < 1:
        res["violations"].append({"key": key, "what": what[:900], "case": {"loss": name, "opts": opts_label, "sim": sim.tolist(), "real": real.tolist(),
                                                                                "before": [[a.tolist(), b.tolist()] for a, b in res.get("_hist", [])]}})


# ------------------------------------------------------------------------------------------ builders: opts label -> (impl, ref)
def build(name, o):
    """o is a JSON-able option dict. Returns (impl callable, ref callable, tol, classify)."""
    from black_it.loss_functions.fourier import FourierLoss, gaussian_low_pass_filter, ideal_low_pass_filter
    from black_it.loss_functions.gsl_div import GslDivLoss
    from black_it.loss_functions.likelihood import LikelihoodLoss
    from black_it.loss_functions.minkowski import MinkowskiLoss
    from black_it.loss_functions.msm import MethodOfMomentsLoss

    w = o.get("weights")
    fl = o.get("filters")

    def common(D):
        ww = None if w is None else np.array(w[:D], dtype=float) if len(w) >= D else None
        ff = None if fl is None else [FILTERS[f] if f else None for f in fl[:D]]
        return ww, ff

    def per_dim(make_loss, loss_1d, tol=RTOL, classify=None):
        objs = {}

        def impl(sim, real):
            D = real.shape[1]
            if D not in objs:
                ww, ff = common(D)
                objs[D] = make_loss(ww, ff)
            return objs[D].compute_loss(sim, real)

        def ref(sim, real):
            ww, ff = common(real.shape[1])
            return R.compute(loss_1d, sim, real, ww, ff)

        return impl, ref, tol, classify

    if name == "minkowski":
        return per_dim(lambda ww, ff: MinkowskiLoss(p=o["p"], coordinate_weights=ww, coordinate_filters=ff), R.minkowski_1d(o["p"]))
    if name == "fourier":
        filt = ideal_low_pass_filter if o["kind"] == "ideal" else gaussian_low_pass_filter
        return per_dim(lambda ww, ff: FourierLoss(frequency_filter=filt, f=o["f"], coordinate_weights=ww, coordinate_filters=ff), R.fourier_1d(o["kind"], o["f"]))
    if name == "gsl":
        def classify(sim, real, got, expected):
            ww, ff = common(real.shape[1])
            alt = R.compute(R.gsl_1d(o["nb_values"], o["nb_word_lengths"], packing="base10"), sim, real, ww, ff)
            collide = any(R.gsl_has_collision([sim[e, :, i] if not (ff and ff[i]) else ff[i](sim[e, :, i]) for e in range(sim.shape[0])], real[:, i], o["nb_values"], o["nb_word_lengths"]) for i in range(real.shape[1]))
            if close(got, alt, 1e-12) and collide:
                return "gsl-word-collision"
            return None
        return per_dim(lambda ww, ff: GslDivLoss(nb_values=o["nb_values"], nb_word_lengths=o["nb_word_lengths"], coordinate_weights=ww, coordinate_filters=ff),
                       R.gsl_1d(o["nb_values"], o["nb_word_lengths"]), 1e-12, classify)
    if name == "msm":
        cov = o["cov"]
        calc = R.three_moments if o["calc"] == "custom" else None
        nm = 3 if calc else 18
        if cov == "spd":
            A = np.fromfunction(lambda i, j: 1.0 / (1.0 + abs(i - j)), (nm, nm))
            cov_v = (A + A.T) / 2 + np.eye(nm)
        elif cov == "diag":
            cov_v = np.diag(1.0 + np.arange(nm) * 0.5)
        else:
            cov_v = cov

        def mk(ww, ff):
            kw = {"covariance_mat": cov_v, "coordinate_weights": ww, "coordinate_filters": ff, "standardise_moments": o["std"]}
            if calc:
                kw["moment_calculator"] = calc
            return MethodOfMomentsLoss(**kw)

        return per_dim(mk, R.msm_1d(cov_v, o["std"], calc or R.moments18), 1e-8)
    if name == "likelihood":
        objs = {}

        def impl(sim, real):
            D = real.shape[1]
            if "one" not in objs:
                # weights are documented as ignored; filters need the right length, so one object per D
                objs["one"] = {}
            if D not in objs["one"]:
                _, ff = common(D)
                objs["one"][D] = LikelihoodLoss(h=o["h"], coordinate_filters=ff)
            return objs["one"][D].compute_loss(sim, real)

        def ref(sim, real):
            _, ff = common(real.shape[1])
            return R.likelihood(sim, real, o["h"], ff)

        return impl, ref, RTOL, None
    raise ValueError(name)


def large_likelihood_case(case):
    """Likelihood loss on series long enough that real length x simulated length x ensemble x coordinates passes 2**24 (a blocked or
    sub-sampled evaluation would only be taken there). Reference: the definition, one (T x S) matrix per ensemble member."""
    from black_it.loss_functions.likelihood import LikelihoodLoss

    R_, N, D, h = case["R"], case["N"], case["D"], case["h"]
    s_ = np.arange(N, dtype=float)
    sim = np.stack([np.stack([np.sin(0.37 * s_ + r + d) + 0.1 * ((s_ * 7 + d) % 11) / 11.0 for d in range(D)], axis=1) for r in range(R_)], axis=0)
    real = np.stack([np.cos(0.23 * s_ + d) * 0.9 for d in range(D)], axis=1)
    got = float(LikelihoodLoss(h=h).compute_loss(sim.copy(), real.copy()))
    hh = ((N * (D + 2)) / 4.0) ** (-1.0 / (D + 4)) if h == "silverman" else N ** (-1.0 / (D + 4)) if h == "scott" else float(h)
    total = 0.0
    for r in range(R_):
        q = np.zeros((N, N))
        for d in range(D):
            q += (sim[r, :, d][None, :] - real[:, d][:, None]) ** 2
        dens = np.sum(np.exp(-(q / D) / (2 * hh * hh)), axis=1) / (N * hh ** D * (2 * math.pi) ** (D / 2.0))
        total += float(np.sum(np.log(dens)))
    ref = -total / R_
    if not close(got, ref, 1e-9):
        return [("likelihood-value", f"LikelihoodLoss(h={h!r}) on ensemble {R_} x length {N} x {D} coordinate(s) (R*T*S*D = {R_ * N * N * D} vs 2**24 = {2**24}): {got!r}, the definition gives {ref!r}")]
    return []


def _lcg(n, seed):
    x, out = seed % 2147483647 or 1, []
    for _ in range(n):
        x = (1103515245 * x + 12345) % 2147483648
        out.append(x / 2147483648.0 - 0.5)
    return np.array(out)


def long_gsl_case(case):
    """GSL-div on series long enough that words have 20..100 symbols (machine integers no longer hold a packed word), with
    plateaus so that different windows share long runs of equal symbols. Reference: tuple words."""
    from black_it.loss_functions.gsl_div import GslDivLoss

    T, b, L, kind = case["T"], case["nb_values"], case["nb_word_lengths"], case["kind"]
    t = np.arange(T, dtype=float)
    noise = _lcg(T, 7)
    if kind == "plateau":       # transient, then a steady state with rare small excursions
        real = np.where(t < T // 5, t / (T // 5), 1.0) + np.where(t % 37 == 0, 0.3, 0.0)
        sims = [np.where(t < T // 4, t / (T // 4), 1.0) + np.where((t + 5 * e) % 41 == 0, -0.4, 0.0) for e in range(2)]
    elif kind == "periodic":
        real = np.sin(2 * np.pi * t / 17.0)
        sims = [np.sin(2 * np.pi * (t + e) / 19.0) for e in range(2)]
    else:                        # noisy
        real = np.cumsum(noise)
        sims = [np.cumsum(_lcg(T, 11 + e)) for e in range(2)]
    sim = np.stack(sims, axis=0)[:, :, None]
    got = float(GslDivLoss(nb_values=b, nb_word_lengths=L).compute_loss(sim.copy(), real[:, None].copy()))
    ref = R.compute(R.gsl_1d(b, L), sim, real[:, None], None, None)
    if not close(got, ref, 1e-10):
        if b is not None and b >= 10 or (b is None and int((T - 1) / 2.0) >= 10):
            return []   # two-digit symbols: the base-10 packing is the recorded known finding (judged on the small lattice)
        return [("gsl-long-words", f"GslDivLoss(nb_values={b}, nb_word_lengths={L}) on a {kind} series of {T} points: {got!r}, the definition (words as tuples) gives {ref!r}")]
    return []


def scaled_msm_case(case):
    """Method of moments on data at unusual scales: a level of 1e6 with unit fluctuations, values of order 1e-9, nearly equal
    increments. The moments are scale-covariant; nothing about them is 'almost constant'."""
    from black_it.loss_functions.msm import MethodOfMomentsLoss

    T, kind, cov, std = case["T"], case["kind"], case["cov"], case["std"]
    base_r = np.cumsum(_lcg(T, 3)) * 0.3 + _lcg(T, 5)
    base_s = [np.cumsum(_lcg(T, 20 + e)) * 0.3 + _lcg(T, 30 + e) for e in range(3)]
    tr = {"level1e6": lambda x: 1e6 + x, "tiny1e-9": lambda x: 1e-9 * x, "ramp": lambda x: 0.5 * np.arange(T) + 1e-7 * x, "level-1e4": lambda x: -1e4 + 0.01 * x,
          "plain": lambda x: x}[kind]
    real = tr(base_r)[:, None]
    sim = np.stack([tr(s) for s in base_s], axis=0)[:, :, None]
    with np.errstate(all="ignore"):
        got = float(MethodOfMomentsLoss(covariance_mat=cov, standardise_moments=std).compute_loss(sim.copy(), real.copy()))
        ref = R.compute(R.msm_1d(cov, std, R.moments18, abs_floor=False), sim, real, None, None)
    if got != got and ref != ref:
        return []
    if not close(got, ref, 1e-4):   # (cancellation in the tiny spread of nearly equal values limits the agreement of two correct evaluations)
        return [("msm-scaled-data", f"MethodOfMomentsLoss(covariance_mat={cov!r}, standardise_moments={std}) on {kind} data of length {T}: {got!r}, the definition gives {ref!r}")]
    return []


def large_cell(cell):
    res = {"evaluations": 0, "nontrivial": 0, "states": 0, "transitions": 0, "traces": 0, "stats": {}, "outcomes": set(), "violations": [], "samples": []}
    for case in cell["cases"]:
        vs = long_gsl_case(case) if case.get("what") == "gsl" else scaled_msm_case(case) if case.get("what") == "msm" else large_likelihood_case(case)
        res["evaluations"] += 1
        res["nontrivial"] += 1
        res["transitions"] += 1
        res["traces"] += 1
        res["stats"]["large_likelihood_cases"] = res["stats"].get("large_likelihood_cases", 0) + 1
        for key, what in vs:
            if sum(1 for x in res["violations"] if x["key"] == key) < 1:
                res["violations"].append({"key": key, "what": what, "case": dict(case, large=True)})
    res["states"] = res["evaluations"]
    return res


def run_cell(cell):
    import warnings

    warnings.filterwarnings("ignore")
    if cell.get("kind") == "large":
        return large_cell(cell)
    res = {"evaluations": 0, "nontrivial": 0, "states": 0, "transitions": 0, "traces": 0, "stats": {}, "outcomes": set(), "violations": [], "samples": []}
    for name, o in cell["options"]:
        impl, ref, tol, classify = build(name, o)
        label = ",".join(f"{k}={v}" for k, v in sorted(o.items()))
        # ONE object per option vector over the interleaved sweep of lengths / dimensions
        chunks = [list(data_cases(T, cell["tier"], heavy=(name in ("msm", "likelihood") or T >= 6))) for T in cell["Ts"]]
        if name == "gsl":
            chunks = [[(s, r) for s, r in ch if (o["nb_word_lengths"] or int((r.shape[0] - 1) / 2)) <= r.shape[0] and (o["nb_values"] or int((r.shape[0] - 1) / 2)) >= 2 and (o["nb_word_lengths"] or int((r.shape[0] - 1) / 2)) >= 1] for ch in chunks]
        inter = [c for tup in itertools.zip_longest(*chunks) for c in tup if c is not None]
        sweep(res, name, label, impl, ref, inter[cell.get("part", 0)::cell.get("parts", 1)], tol, classify, opts=o)
        if o.get("filters") and "halve" in o["filters"]:
            # integer-typed simulations (a model returning counts) with a real-valued filter: same values, another dtype
            ints = [(s_.astype(np.int64), r_) for s_, r_ in inter[cell.get("part", 0)::cell.get("parts", 1)][::3]]
            sweep(res, name, label + ",sim_dtype=int64", impl, lambda s_, r_, ref=ref: ref(s_.astype(float), r_), ints, tol, classify, opts=dict(o, sim_dtype="int64"))
        res["outcomes"].add((name, label))
        res["traces"] += 1
    res.pop("_hist", None)
    res["states"] = res["evaluations"]
    res["samples"] = [{"loss": cell["options"][0][0], "options": cell["options"][0][1], "lengths": cell["Ts"]}]
    res["outcomes"] = sorted(res["outcomes"])
    return res


def replay_case(case):
    if case.get("large"):
        return [{"key": k, "what": w} for k, w in (long_gsl_case(case) if case.get("what") == "gsl" else scaled_msm_case(case) if case.get("what") == "msm" else large_likelihood_case(case))]
    o_full = case["opts"]
    dt = np.int64 if o_full.get("sim_dtype") == "int64" else float
    o = {k: v for k, v in o_full.items() if k != "sim_dtype"}
    impl, ref0, tol, classify = build(case["loss"], o)
    ref = (lambda s_, r_: ref0(s_.astype(float), r_)) if dt is np.int64 else ref0
    res = {"evaluations": 0, "nontrivial": 0, "transitions": 0, "stats": {}, "violations": []}
    label = ",".join(f"{k}={v}" for k, v in sorted(o.items())) + (",sim_dtype=int64" if dt is np.int64 else "")
    # the same object first sees the evaluations that preceded the failing one in the sweep (first and previous)
    seq = [(np.array(a, dtype=dt), np.array(b, dtype=float)) for a, b in case.get("before", [])] + [(np.array(case["sim"], dtype=dt), np.array(case["real"], dtype=float))]
    sweep(res, case["loss"], label, impl, ref, seq, tol, classify, opts=o_full)
    return [{"key": v["key"], "what": v["what"]} for v in res["violations"]]


def option_lattice(tier):
    wf = [(None, None), ([1.0, 0.0], None), ([0.3, 0.7], None), (None, ["negate", None]), (None, ["cumsum", "double"]), ([0.3, 0.7], ["double", "negate"]), (None, ["halve", "halve"])]
    out = []
    for p in (1, 2, 3):
        for w, f in wf:
            out.append(("minkowski", {"p": p, "weights": w, "filters": f}))
    for kind in ("ideal", "gaussian"):
        for f in (0.1, 0.5, 0.8, 1.0):
            for w, fl in (wf if tier != "quick" else wf[:1] + wf[4:]):
                out.append(("fourier", {"kind": kind, "f": f, "weights": w, "filters": fl}))
    for b in (None, 2, 3, 12):
        for L in (None, 1, 2, 3):
            for w, fl in (wf[:1] + wf[5:] if tier == "quick" else wf):
                out.append(("gsl", {"nb_values": b, "nb_word_lengths": L, "weights": w, "filters": fl}))
    for cov in ("identity", "inverse_variance", "spd", "diag"):
        for std in (False, True):
            for calc in ("default", "custom"):
                for w, fl in (wf[:1] + wf[5:] if tier == "quick" else wf[:1] + wf[2:3] + wf[5:]):
                    out.append(("msm", {"cov": cov, "std": std, "calc": calc, "weights": w, "filters": fl}))
    for h in ("silverman", "scott", 0.5):
        for w, fl in wf[:1] + wf[3:5] + wf[6:]:
            out.append(("likelihood", {"h": h, "weights": w, "filters": fl}))
    return out


def main(ctx):
    cells = []
    for name, o in option_lattice(ctx.tier):
        if name == "msm":
            Ts = ([8, 9] if ctx.quick else [8, 9, 30]) if o["calc"] == "default" else [4, 8, 5]
            parts = 2 if o["calc"] == "default" else 1
        elif name == "gsl":
            Ts = [4, 5, 8] if ctx.quick else [4, 5, 6, 8, 25]
            parts = 1
        elif name == "likelihood":
            Ts = [3, 5, 4] if ctx.quick else [3, 5, 4, 25]
            parts = 1
        elif name == "fourier":
            Ts = [3, 4, 5, 8] if ctx.quick else [3, 4, 5, 6, 8, 9, 25]   # 8 and 9 give f*n_freq = 2.5 / 0.5 (rounding ties: skipped, counted)
            parts = 1
        else:
            Ts = [3, 4, 5] if ctx.quick else [3, 4, 5, 6, 25]
            parts = 1
        for p in range(parts):
            cells.append({"options": [(name, o)], "Ts": Ts, "tier": ctx.tier, "part": p, "parts": parts})
    big = [{"R": r, "N": n, "D": d, "h": h} for (r, n, d) in ((1, 4096, 1), (1, 4097, 1), (1, 4100, 1), (2, 2900, 1), (1, 2900, 2)) + (() if ctx.quick else ((3, 2500, 2), (2, 5000, 1)))
           for h in ("silverman", "scott", 0.5)]
    for i in range(0, len(big), 3):
        cells.append({"kind": "large", "cases": big[i:i + 3]})
    lg = [{"what": "gsl", "T": T, "nb_values": b, "nb_word_lengths": L, "kind": k} for T in ((60, 140, 200) if ctx.quick else (60, 100, 140, 200, 300)) for b in (3, 6)
          for L in (None, 18, 19, 20, 40, 65, 70) if (L or 0) < T // 2 for k in ("plateau", "periodic", "noisy")]
    ms = [{"what": "msm", "T": T, "kind": k, "cov": cov, "std": std} for T in (40, 200) for k in ("plain", "level1e6", "tiny1e-9", "ramp", "level-1e4")
          for cov in ("identity", "inverse_variance") for std in (False, True)]
    extra = lg + ms
    for i in range(16):
        if extra[i::16]:
            cells.append({"kind": "large", "cases": extra[i::16]})
    ctx.bounds = {"long_gsl_words": "series of 60-200 (300) points, words of up to 100 symbols, plateau / periodic / noisy shapes", "scaled_moments": "level 1e6, order 1e-9, nearly equal increments, level -1e4",
                  "large_likelihood": "ensemble x length x coordinates with R*T*S*D on both sides of 2**24, three bandwidth rules", "option_vectors": len(option_lattice(ctx.tier)), "lengths": "3,4,5 (Minkowski/Fourier/likelihood), 4,5,8 (GSL), 8,9 (moments)", "ensemble": [1, 2, 3], "coordinates": [1, 2],
                  "value_alphabets": ["{0,1}^T (all)", "6 shapes over {0,1,2}", "6 shapes over 12 levels"], "tolerance": "1e-9 relative (GSL 1e-12, moments 1e-8)"}
    ctx.rule = "every (option vector, data case) pair; one loss object per option vector over the interleaved sweep; non-trivial = non-constant simulated data or more than one ensemble member"
    ctx.assumptions = ["reference models in vf/refs/losses_ref.py written from the documented definitions", "inputs on which the definition is undefined (0/0 standardisation, zero Gaussian width, base-1 logarithm) are skipped and counted"]
    ctx.pmap("vf.checks.c07:run_cell", cells)
    ctx.require(ctx.evaluations > 50000, "too few evaluations")
    ctx.require(len({o[0] for o in ctx.outcomes}) == 5, "not all five losses were evaluated")
