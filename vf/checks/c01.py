"""C01 - a calibration run is a pure function of its configuration and seed (E2, differential).

For every configuration of a finite lattice (line-up x scheduler x loss x dims x ensemble x seed) a baseline run and every
single DEVIATION from it are executed and their histories and return values compared bit for bit:
  twin       the same again with fresh objects
  jobs2/4    n_jobs = 2 / 4 with the real loky back-end (seeds must be drawn in the parent, in order)
  verbose    verbosity flipped
  folder     a saving folder set
  ctor7/ctorN  sampler (and RL scheduler/agent) objects constructed with seeds 7 / 12345 instead of None
  used       the sampler objects were used by hand before the calibration (samplers whose only carried state is random)
  warnall    the interpreter's warning filters set to "always" (the harness itself runs with warnings ignored)
  hashseed   the same run in ANOTHER interpreter process with a different PYTHONHASHSEED (selected configurations, all five losses)
Selected configurations leave the small scope on purpose: a surrogate trained on > 500 rows, a likelihood loss on series of
length 4100 (real length x simulated length > 2**24).
Thorough adds all pairs of deviations.
"""
from __future__ import annotations

import itertools

import numpy as np

from vf.canon import canon
from vf.core import quiet, shutdown_loky
from vf.opseq import cal as C

ID = "C01"
TITLE = "A calibration run is a pure function of its configuration and seed"
NONDETERMINISM_IS_VIOLATION = True
DEVIATIONS = ["twin", "jobs2", "jobs4", "verbose", "folder", "ctor7", "ctorN", "used", "warnall"]
# samplers whose only state between calibrations is random (a reseed must make a used object behave like a fresh one);
# the particle swarm and CORS keep algorithmic state (swarm, sample counter) by design and are not pre-used
RESEED_RESETS = {"Halton", "RSequence", "RandomUniform", "BestBatch", "XGBoost", "RandomForest", "GaussianProcess"}


def apply_dev(cfg, devs):
    c = dict(cfg)
    c["lineup"] = [dict(s) for s in cfg["lineup"]]
    for d in devs:
        if d == "jobs2":
            c["n_jobs"] = 2
        elif d == "jobs4":
            c["n_jobs"] = 4
        elif d == "verbose":
            c["verbose"] = not cfg.get("verbose", False)
        elif d == "folder":
            c["_folder"] = True
        elif d == "used":
            c["_preuse"] = True
        elif d == "warnall":
            c["_warnall"] = True   # the interpreter's warning filters: "always" instead of this harness's "ignore"
        elif d in ("ctor7", "ctorN"):
            sd = 7 if d == "ctor7" else 12345
            for s in c["lineup"]:
                s["seed"] = sd
            if isinstance(c.get("scheduler", "rr"), dict):
                c["scheduler"] = dict(c["scheduler"], agent_seed=sd, sched_seed=sd + 1)
    return c


def one_run_other_process(cfg, hashseed):
    """The same calibration in a fresh interpreter with another hash salt (set/dict order, hash() of str/bytes)."""
    import json
    import os
    import pickle
    import subprocess
    import sys
    import tempfile

    fd, path = tempfile.mkstemp(suffix=".pkl")
    os.close(fd)
    try:
        env = dict(os.environ, PYTHONHASHSEED=str(hashseed))
        p = subprocess.run([sys.executable, "-m", "vf.checks.c01_sub", path], input=json.dumps(cfg).encode(), capture_output=True, env=env, check=False)
        if p.returncode != 0:
            raise RuntimeError(f"helper process failed: {p.stderr.decode()[-400:]}")
        with open(path, "rb") as f:
            out = pickle.load(f)
    finally:
        os.unlink(path)
    if out[0] == "raised":
        raise RuntimeError(f"{out[1]}: {out[2]}")
    return out[1]


def one_run(cfg):
    with C.scratch() as tmp:
        c = dict(cfg)
        if c.pop("_folder", False):
            c["saving_folder"] = str(tmp / "ck")
        samplers = None
        if c.pop("_preuse", False):
            # the sampler objects have been used by hand before the calibration (e.g. in an earlier calibration): hidden random
            # state must not survive the reseeding at batch 0
            from vf import lattice as L
            from black_it.search_space import SearchSpace

            bounds, prec = C.space(c)
            sp = SearchSpace(bounds, prec, verbose=False)
            pts, losses = L.history(sp, 7, "distinct")
            samplers = [C.make_sampler(s_) for s_ in c["lineup"]]
            for spec, obj in zip(c["lineup"], samplers):
                if spec["cls"] in RESEED_RESETS:
                    try:
                        with quiet():
                            obj.sample(sp, pts, losses)
                            obj.sample(sp, pts, losses)
                    except Exception:  # noqa: BLE001  (a by-hand use that fails, e.g. a singular kernel, is still a use)
                        pass
        import warnings

        warnall = c.pop("_warnall", False)
        cal = C.build(c, samplers=samplers)
        with quiet(), warnings.catch_warnings():
            if warnall:
                warnings.simplefilter("always")
            ret = cal.calibrate(cfg["batches"])
        h = C.history(cal)
        return h, (np.array(ret[0]), np.array(ret[1]))


def compare(h0, r0, h1, r1, cfg):
    """Return (key detail, what) of the first difference or None."""
    for name in C.HIST:
        a, b = h0[name], h1[name]
        if a.shape != b.shape or a.dtype != b.dtype or a.tobytes() != b.tobytes():
            if a.shape == b.shape:
                rows = np.argwhere(np.any((a != b).reshape(len(a), -1), axis=1)).ravel() if len(a) else []
                row = int(rows[0]) if len(rows) else -1
                batch = int(h0["batch_num_samp"][row]) if 0 <= row < len(h0["batch_num_samp"]) else -1
            else:
                row, batch = -1, -1
            lu = cfg["lineup"]
            active = lu[batch % len(lu)]["cls"] if batch >= 0 and cfg.get("scheduler", "rr") == "rr" else "?"
            return name, f"{name} differs (shape {a.shape} vs {b.shape}), first differing row {row} in batch {batch} (sampler {active})"
    for i, nm in enumerate(("returned params", "returned losses")):
        if r0[i].shape != r1[i].shape or r0[i].tobytes() != r1[i].tobytes():
            return "return", f"{nm} differ"
    return None


def run_config(cfg, dev_sets):
    """Baseline + each deviation set. Returns list of (key, what, devs)."""
    out = []
    try:
        h0, r0 = one_run(cfg)
    except Exception as e:  # noqa: BLE001
        # the baseline raises (e.g. a history-driven sampler first): every deviation must raise the same way
        for devs in dev_sets:
            try:
                one_run(apply_dev(cfg, devs))
                out.append(("raises-only-in-baseline:" + "+".join(devs), f"baseline raised {type(e).__name__} but the deviation {devs} ran", devs))
            except Exception as e2:  # noqa: BLE001
                if type(e2) is not type(e):
                    out.append(("raises-differently:" + "+".join(devs), f"baseline raised {type(e).__name__}, deviation {devs} raised {type(e2).__name__}", devs))
        return out, True
    for devs in dev_sets:
        try:
            if "hashseed" in devs:
                h1, r1 = one_run_other_process(apply_dev(cfg, [d for d in devs if d != "hashseed"]), 4242)
            else:
                h1, r1 = one_run(apply_dev(cfg, devs))
        except Exception as e:  # noqa: BLE001
            if isinstance(e, TypeError) and "pickle" in str(e) and "folder" in devs and isinstance(cfg.get("scheduler", "rr"), dict):
                out.append(("rl-scheduler-unpicklable", f"deviation {devs} raised {type(e).__name__}: {e}", devs))
            else:
                out.append(("deviation-raises:" + "+".join(devs), f"deviation {devs} raised {type(e).__name__}: {e}", devs))
            continue
        d = compare(h0, r0, h1, r1, cfg)
        if d:
            out.append((f"depends-on:{'+'.join(devs)}:{d[0]}", f"deviation {devs}: {d[1]}", devs))
    return out, False


def run_cell(cell):
    res = {"evaluations": 0, "nontrivial": 0, "states": 0, "transitions": 0, "traces": 0, "stats": {}, "outcomes": set(), "violations": [], "samples": []}
    used_jobs = False
    for cfg in cell["cfgs"]:
        dev_sets = [d for d in cell["dev_sets"]]
        vs, raised = run_config(cfg, dev_sets)
        used_jobs = used_jobs or any(d.startswith("jobs") for ds in dev_sets for d in ds)
        res["evaluations"] += 1 + len(dev_sets)
        res["traces"] += len(dev_sets)
        res["transitions"] += (1 + len(dev_sets)) * cfg["batches"]
        res["nontrivial"] += len(dev_sets)
        res["states"] += 1
        res["stats"]["baseline_raised"] = res["stats"].get("baseline_raised", 0) + int(raised)
        res["outcomes"].add((len(cfg["lineup"]), str(cfg.get("scheduler", "rr"))[:12], cfg.get("loss"), raised))
        for key, what, devs in vs:
            lineup = "+".join(s["cls"] + str(s["bs"]) for s in cfg["lineup"])
            if sum(1 for x in res["violations"] if x["key"] == key) < 1:
                res["violations"].append({"key": key, "what": f"[{lineup} sched={cfg.get('scheduler', 'rr')} loss={cfg.get('loss')} dims={cfg.get('dims')} E={cfg.get('ensemble')} seed={cfg.get('seed')} batches={cfg['batches']}] {what}",
                                          "case": {"cfg": cfg, "devs": list(devs)}})
    if used_jobs:
        shutdown_loky()
    res["samples"] = [{"lineup": [s["cls"] for s in cell["cfgs"][0]["lineup"]], "deviations": cell["dev_sets"][:3]}]
    res["outcomes"] = sorted(res["outcomes"], key=repr)
    return res


def replay_case(case):
    vs, _ = run_config(case["cfg"], [case["devs"]])
    return [{"key": k, "what": w} for k, w, _ in vs]


def main(ctx):
    from vf.checks.c02 import lineups

    S = ctx.seed
    cfgs = []
    lus = lineups(2) if ctx.quick else lineups(3)
    seeds = [0, S + 1] if ctx.quick else [0, S + 1, S + 2]
    losses = ["minkowski", "msm"] if ctx.quick else ["minkowski", "msm", "fourier", "gsl", "likelihood"]
    for li, lu in enumerate(lus):
        for si, seed in enumerate(seeds):
            for di, dims in enumerate((1, 2) if ctx.quick else (1, 2, 3, 4)):
                # a complete lattice would be line-ups x seeds x dims x losses x ensemble; the quick tier takes the Latin-square slice below
                loss = losses[(li + si + di) % len(losses)]
                ens = 1 + (li + di) % (2 if ctx.quick else 3)
                if ctx.quick and len(lu) == 2 and (si + di) % 2 == 1:
                    continue
                if not ctx.quick and len(lu) == 3 and (li + si + di) % 6:
                    continue
                cfgs.append({"lineup": lu, "seed": seed, "dims": dims, "model": "gauss2", "ensemble": ens, "loss": loss, "batches": 2 * len(lu) + (0 if ctx.quick else 1), "D": 2, "T": 8})
    # every line-up with ensemble 2 and a batch of >= 2 (seed-order slips need both), and the RL scheduler in a single session
    for lu in lineups(2):
        cfgs.append({"lineup": lu, "seed": S, "dims": 2, "model": "gauss2", "ensemble": 2, "loss": "minkowski", "batches": 2 * len(lu)})
    for lu in [x for x in lineups(2) if len(x) == 2][:: 1 if not ctx.quick else 3]:
        for eps in (0.0, 0.3):
            cfgs.append({"lineup": lu, "seed": 0 if eps else S + 1, "dims": 2, "model": "gauss2", "ensemble": 2, "loss": "minkowski", "batches": 4, "scheduler": {"eps": eps, "alpha": -1 if eps else 0.5}})
    # history-driven sampler first: raises identically in every twin (checked once per class)
    for c in ("BestBatch", "CORS", "XGBoost", "RandomForest", "GaussianProcess"):
        cfgs.append({"lineup": [{"cls": c, "bs": 2}], "seed": S, "dims": 2, "model": "gauss2", "ensemble": 1, "loss": "minkowski", "batches": 1})
    # a model whose run time depends on the parameter: with n_jobs > 1 workers complete out of submission order
    uneven = []
    for lu in ([{"cls": "Halton", "bs": 3}], [{"cls": "RandomUniform", "bs": 3}, {"cls": "BestBatch", "bs": 2}], [{"cls": "RSequence", "bs": 4}]):
        uneven.append({"lineup": lu, "seed": S, "dims": 2, "model": "slow_uneven2", "ensemble": 2, "loss": "minkowski", "batches": 2 * len(lu)})
    # models that are not well behaved: one that rewrites its parameter vector in place (n_jobs = 1 hands over the live array, a worker
    # process gets a copy), one that returns a NaN tail for some seeds (anything "repaired" inside a worker would depend on n_jobs)
    for mdl, loss in (("mutating2", "minkowski"), ("nan_by_seed2", "msm"), ("nan_by_seed2", "fourier")):
        for lu in ([{"cls": "Halton", "bs": 2}, {"cls": "BestBatch", "bs": 2}], [{"cls": "RandomUniform", "bs": 3}, {"cls": "RSequence", "bs": 1}]):
            uneven.append({"lineup": lu, "seed": S, "dims": 2, "model": mdl, "ensemble": 3 if mdl != "mutating2" else 2, "loss": loss, "batches": 4, "D": 2, "T": 8})
    # larger-scope probes: five samplers, ensemble 5, batch size 7, 12 batches
    five = [{"cls": c, "bs": b} for c, b in zip(("Halton", "BestBatch", "RandomUniform", "XGBoost", "RSequence"), (7, 3, 2, 2, 4))]
    cfgs.append({"lineup": five, "seed": S, "dims": 3, "model": "gauss2", "ensemble": 5, "loss": "minkowski", "batches": 12})
    # another interpreter process with another hash salt: every loss, a surrogate, the RL scheduler
    other = []
    for li, loss in enumerate(["minkowski", "msm", "fourier", "gsl", "likelihood"]):
        lu = [[{"cls": "Halton", "bs": 2}, {"cls": "BestBatch", "bs": 2}], [{"cls": "RandomUniform", "bs": 2}, {"cls": "XGBoost", "bs": 2}], [{"cls": "RSequence", "bs": 2}, {"cls": "ParticleSwarm", "bs": 2}]][li % 3]
        other.append({"lineup": lu, "seed": S, "dims": 2, "model": "gauss2", "ensemble": 2, "loss": loss, "batches": 4, "D": 2, "T": 8})
    other.append({"lineup": [{"cls": "Halton", "bs": 2}, {"cls": "RandomUniform", "bs": 2}], "seed": S, "dims": 2, "model": "gauss2", "ensemble": 1, "loss": "minkowski", "batches": 4, "scheduler": {"eps": 0.3, "alpha": -1}})
    if not ctx.quick:
        for lu in lineups(2)[::2]:
            other.append({"lineup": lu, "seed": S + 1, "dims": 2, "model": "gauss2", "ensemble": 1, "loss": "msm", "batches": 2 * len(lu)})
    # outside the small scope: a likelihood loss on series of length 4100 (real x simulated length > 2**24), a GP trained on > 500 rows
    big_lik = {"lineup": [{"cls": "Halton", "bs": 1}, {"cls": "RandomUniform", "bs": 1}], "seed": S, "dims": 1, "model": "gauss1", "ensemble": 1, "loss": "likelihood", "batches": 2, "D": 1, "T": 4100}
    big_gp = {"lineup": [{"cls": "Halton", "bs": 300}, {"cls": "RSequence", "bs": 300}, {"cls": "GaussianProcess", "bs": 5}], "seed": S, "dims": 2, "model": "gauss2", "ensemble": 1, "loss": "minkowski", "batches": 3, "D": 2, "T": 4}
    singles = [[d] for d in DEVIATIONS]
    pairs = [list(p) for p in itertools.combinations(DEVIATIONS, 2) if not (p[0].startswith("jobs") and p[1].startswith("jobs")) and not (p[0].startswith("ctor") and p[1].startswith("ctor"))]
    cells = []
    chunk = 4
    for i in range(0, len(cfgs), chunk):
        cells.append({"cfgs": cfgs[i:i + chunk], "dev_sets": singles if ctx.quick else singles + pairs})
    for c in uneven:
        cells.append({"cfgs": [c], "dev_sets": [["jobs2"], ["jobs4"], ["jobs2", "folder"]]})
    for c in other:
        cells.append({"cfgs": [c], "dev_sets": [["hashseed"]] if ctx.quick else [["hashseed"], ["hashseed", "jobs2"], ["hashseed", "ctor7"]]})
    cells.append({"cfgs": [big_lik], "dev_sets": [["twin"], ["hashseed"]]})
    cells.append({"cfgs": [big_gp], "dev_sets": [["twin"], ["ctor7"], ["used"]] + ([] if ctx.quick else [["hashseed"], ["jobs2"]])})
    ctx.bounds = {"configurations": len(cfgs) + len(uneven) + len(other) + 2, "other_process_configurations": len(other) + 1,
                  "large_scope": ["likelihood loss, series length 4100", "Gaussian process trained on 600 rows"], "lineups": len(lus), "seeds": seeds, "losses": losses, "deviations": DEVIATIONS, "pairs_of_deviations": 0 if ctx.quick else len(pairs),
                  "rl": "eps {0,.3}, single session of 4 batches", "batches": "2 x len(line-up)" + ("" if ctx.quick else " + 1")}
    ctx.rule = "baseline + every single deviation (thorough: every pair) per configuration; evaluations = runs; non-trivial = deviation runs compared with their baseline; states = configurations"
    ctx.assumptions = ["joblib/loky returns results in submission order; completion order of workers is not enumerated", "bit-exact comparison of the five history arrays and of the return value"]
    ctx.pmap("vf.checks.c01:run_cell", cells)
    ctx.require(ctx.stats.get("baseline_raised", 0) >= 4, "the history-driven-sampler-first configurations did not raise (BestBatch, CORS, RandomForest, GaussianProcess do on an empty history; XGBoost fits on zero rows)")
    ctx.require(ctx.nontrivial > 1000, "too few deviation runs")
