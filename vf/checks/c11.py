"""C11 - a failing batch leaves the calibrator consistent and reusable (E2 fault enumeration x E1).

A distinguishable exception is injected at EVERY invocation index of the model, of the loss function and of the samplers'
sample_batch in runs of a few batches, for the round-robin scheduler (with and without a saving folder) and for the RL
scheduler (real Calibrator.calibrate on the calibration thread + agent thread under the controlled-thread explorer, every
schedule with <= 1 preemption). Oracle: calibrate() raises THAT exception; the history equals the fault-free twin's prefix of
completed batches (bitwise) and is aligned; no thread started by the calibration is left; the next calibrate(1) (RL: calibrate(2),
so that the agent must have been answered for the retried batch) works and appends exactly that many aligned batches.
"""
from __future__ import annotations

import threading

import numpy as np

from vf import models
from vf.core import HarnessError, quiet
from vf.opseq import cal as C
from vf.sched import explore as ex
from vf.sched import rl_harness as rh

ID = "C11"
TITLE = "A failing batch leaves the calibrator consistent and reusable"
LINEUP = [{"cls": "Halton", "bs": 2}, {"cls": "RandomUniform", "bs": 2}, {"cls": "BestBatch", "bs": 2}]


def base_cfg(sched, seed, ens=2):
    cfg = {"lineup": LINEUP, "seed": seed, "dims": 2, "model": "gauss2", "ensemble": ens, "loss": "minkowski"}
    if sched == "rl":
        cfg["scheduler"] = {"eps": 0.5, "agent_seed": 5, "alpha": 0.5}
    return cfg


def fault_free(cfg, n, under_control):
    models.reset()

    def go():
        cal = C.build(cfg)
        with quiet():
            cal.calibrate(n)
        return cal

    if under_control:
        _, cal, exc, _ = rh.controlled(go)
        if exc is not None:
            raise HarnessError(f"fault-free RL twin raised {type(exc).__name__}: {exc}")
    else:
        cal = go()
    return C.history(cal), np.asarray(cal.batch_num_samp)


def judge(cal, caught, expected_exc, twin, thread_delta, leaked, folder=None, cfg=None):
    v = []
    if caught is None:
        v.append(("fault-swallowed", "calibrate() returned normally although the injected fault fired"))
        return v
    # (a StopIteration crossing a generator frame arrives as RuntimeError(cause=it): Python's own rule, not a swallowed error)
    pep479 = issubclass(expected_exc, StopIteration) and isinstance(caught, RuntimeError) and isinstance(caught.__cause__, expected_exc)
    if not isinstance(caught, expected_exc) and not pep479:
        v.append(("wrong-exception", f"calibrate() raised {type(caught).__name__}: {caught} instead of the injected {expected_exc.__name__}"))
    h = C.history(cal)
    lens = {k: len(a) for k, a in h.items()}
    if len(set(lens.values())) != 1 or lens["params_samp"] != cal.n_sampled_params:
        v.append(("history-misaligned", f"after the fault the history arrays have lengths {lens}, n_sampled_params={cal.n_sampled_params}"))
        return v
    nb = cal.current_batch_index
    th, tb = twin
    rows = int(np.sum(tb < nb))
    if lens["params_samp"] != rows:
        v.append(("history-not-prefix", f"{lens['params_samp']} rows recorded for {nb} completed batches; the fault-free run has {rows}"))
    else:
        for name in C.HIST:
            if not np.array_equal(h[name], th[name][:rows], equal_nan=True):
                v.append(("history-not-prefix", f"{name} after the fault differs from the fault-free run's first {nb} batches"))
                break
    if thread_delta:
        v.append(("thread-left-running", f"threads alive after calibrate() raised: {thread_delta}"))
    if leaked:
        v.append(("thread-left-running", f"controlled threads still alive after calibrate() raised: {leaked}"))
    return v


def judge_next(cal, exc2, rows_before, nb_before, follow=1):
    if exc2 is not None:
        return [("scheduler-unusable", f"the next calibrate({follow}) raised {type(exc2).__name__}: {exc2}")]
    h = C.history(cal)
    lens = {k: len(a) for k, a in h.items()}
    if len(set(lens.values())) != 1 or cal.current_batch_index != nb_before + follow or lens["params_samp"] <= rows_before:
        return [("next-batch-misaligned", f"after the next calibrate({follow}): lengths {lens}, batch index {cal.current_batch_index} (was {nb_before})")]
    new = np.asarray(h["batch_num_samp"][rows_before:])
    if sorted(set(new.tolist())) != list(range(nb_before, nb_before + follow)) or np.any(np.diff(new) < 0):
        return [("next-batch-misaligned", f"batch labels of the new rows: {new.tolist()}, expected {list(range(nb_before, nb_before + follow))} in order")]
    return []


def run_fault(cfg, source, k, n, twin, prefix=None, folder=False, sleep_at=None):
    """One fault position (and, for RL, one schedule). Returns (violations, controller or None, fired)."""
    rl = "scheduler" in cfg
    follow = 2 if rl else 1   # RL: the batch after the retried one needs the agent's answer to the retried one (wave 6, C11-k)
    source, _, flavour = source.partition(":")   # "loss:stop" = the loss raises a StopIteration, "sampler:exit" = a SystemExit, ...
    flavour = flavour or None
    models.reset(fault_at=k if source in ("model", "interrupt") else None, interrupt=flavour if (source == "model" and flavour in ("stop", "value", "lookup", "os")) else source == "interrupt")
    rec = C.Recorder(fault={source: k, "exc": flavour} if source in ("loss", "sampler") else None)
    expected = (models.InjectedModelStop if flavour == "stop" else models.MODEL_FLAVOURS[flavour] if flavour in models.MODEL_FLAVOURS else models.InjectedModelFault) if source == "model" else models.InjectedModelInterrupt if source == "interrupt" else C.FLAVOURS[flavour]
    before = set(threading.enumerate())
    out = {}
    with C.scratch() as tmp:
        c = dict(cfg, saving_folder=str(tmp / "ck")) if folder else cfg

        def go():
            cal = C.build(c)
            out["cal"] = cal
            try:
                with quiet():
                    cal.calibrate(n)
                out["caught"] = None
            except (Exception, models.InjectedModelInterrupt, C.InjectedExit) as e:  # noqa: BLE001
                out["caught"] = e
            out["rows"], out["nb"] = cal.n_sampled_params, cal.current_batch_index
            out["fired"] = out["caught"] is not None or (source in ("model", "interrupt") and models.N_CALLS > k) or (source == "loss" and len(rec.loss_calls) > k) or (source == "sampler" and rec.n_sample_batch > k)
            out["mid_threads"] = [t.name for t in set(threading.enumerate()) - before if not rl]
            out["agent_alive"] = bool(rl and rh.vt.live_threads())
            out["first"] = judge(cal, out["caught"], expected, twin, out["mid_threads"], ["agent"] if out["agent_alive"] else [])
            # no more faults: the same object must be usable
            models.FAULT_AT = None
            rec.fault = {}
            rec2 = C.Recorder()
            try:
                with rec2, quiet():
                    cal.calibrate(follow)
                out["exc2"] = None
            except Exception as e:  # noqa: BLE001
                out["exc2"] = e
            out["next_sampler"] = rec2.sched_calls[0]["index"] if rec2.sched_calls else None
            return cal

        with rec:
            if rl:
                ctl, _, exc, leaked = rh.controlled(go, prefix or [], sleep_at=sleep_at)
                if ctl.aborted == "sleep-blocked":
                    return [], ctl, True
                if exc is not None:
                    if isinstance(exc, rh.vt.Abort):
                        return [("deadlock" if "deadlock" in str(exc) else "livelock-or-horizon", f"the execution ended in {exc} (fault {source}#{k})")], ctl, True
                    raise HarnessError(f"unexpected {type(exc).__name__}: {exc}")
            else:
                ctl, leaked = None, []
                go()
    fired = out.get("fired", False)
    if out.get("caught") is None and not fired:
        return [], ctl, False   # the run has fewer invocations than k: nothing injected
    v = list(out["first"])
    if leaked:
        v.append(("thread-left-running", f"controlled threads alive at the end: {leaked}"))
    if not v:
        v += judge_next(out["cal"], out["exc2"], out["rows"], out["nb"], follow)
    if not v and not rl and out.get("next_sampler") is not None and out["next_sampler"] != out["nb"] % len(cfg["lineup"]):
        v.append(("retry-by-wrong-sampler", f"after the failed batch {out['nb']} the next calibrate(1) used sampler #{out['next_sampler']}; round-robin prescribes #{out['nb'] % len(cfg['lineup'])} for batch {out['nb']}"))
    return v, ctl, True


def early_stop_cell(cell):
    """No fault: the session is left through the convergence `break` under the RL scheduler. For every schedule with <= bound
    preemptions: calibrate() returns early, no thread and no message is left, the next calibrate() works."""
    res = {"evaluations": 0, "nontrivial": 0, "states": 0, "transitions": 0, "traces": 0, "stats": {}, "outcomes": set(), "violations": [], "samples": []}
    cfg = dict(cell["cfg"], convergence_precision=0, model="const2", real_const=0.25)  # the loss is exactly 0 from the first batch on

    def one(prefix, sleep_at=None):
        models.reset()
        out = {}

        def go():
            cal = C.build(cfg)
            with quiet():
                cal.calibrate(cell["n"])
            out["b1"] = cal.current_batch_index
            out["alive"] = rh.vt.live_threads()
            out["queues"] = rh.queue_sizes()
            with quiet():
                cal.calibrate(1)
            out["b2"] = cal.current_batch_index
            out["losses"] = cal.losses_samp.copy()
            return cal

        rh.vt.reset_registry()
        ctl, _, exc, leaked = rh.controlled(go, prefix, sleep_at=sleep_at)
        return ctl, (out, exc, leaked)

    for prefix, ctl, (out, exc, leaked) in ex.explore_por(one, max_execs=3000):
        res["evaluations"] += 1
        res["traces"] += 1
        res["transitions"] += ctl.n_points
        res["nontrivial"] += 1
        vs = []
        if exc is not None:
            vs.append(("deadlock" if "deadlock" in str(exc) else "early-stop-raises", f"{type(exc).__name__}: {exc}"))
        else:
            if out["alive"] or leaked:
                vs.append(("thread-left-running", f"after an early stop: live controlled threads {out['alive'] or leaked}"))
            if any(out["queues"]):
                vs.append(("leftover-message", f"after an early stop the queues hold {out['queues']} messages"))
            if out["b2"] != out["b1"] + 1:
                vs.append(("scheduler-unusable", f"batch index {out['b1']} -> {out['b2']} over the next calibrate(1)"))
            res["outcomes"].add(("early-stop", out["b1"] < cell["n"]))
        for key, what in vs:
            if sum(1 for x in res["violations"] if x["key"] == key) < 1:
                res["violations"].append({"key": key, "what": f"[RL scheduler, convergence break, schedule {list(ctl.choices)}] {what}", "case": {"mode": "early-stop", "cfg": cell["cfg"], "n": cell["n"], "schedule": list(ctl.choices)}})
    res["states"] = res["evaluations"]
    res["outcomes"] = sorted(res["outcomes"], key=repr)
    return res


def scripted_fault_case(case):
    """Scripted losses (C14's device: the model returns the script, the loss is |value|), a convergence precision, and the loss
    failing at invocation k. The discarded batch must leave NO trace: the next calibrate(3) stops exactly when the RECORDED losses
    say so (a loss computed for the discarded batch is not a recorded loss)."""
    from black_it.calibrator import Calibrator
    from black_it.loss_functions.minkowski import MinkowskiLoss
    from black_it.samplers.random_uniform import RandomUniformSampler
    from vf.checks.c14 import converged

    script, bs, p, k = case["script"], case["bs"], case["p"], case["k"]
    models.reset(script=list(script) + [5.0])
    rec = C.Recorder(fault={"loss": k})
    v = []
    with rec:
        with quiet():
            cal = Calibrator(loss_function=MinkowskiLoss(p=1), real_data=np.zeros((1, 1)), model=models.model_script, parameters_bounds=[[0.0], [1.0]],
                             parameters_precision=[0.001], ensemble_size=1, samplers=[RandomUniformSampler(batch_size=bs)], sim_length=1,
                             convergence_precision=p, verbose=case.get("verbose", False), saving_folder=None, random_state=0, n_jobs=1)
        caught = None
        try:
            with quiet():
                cal.calibrate(2)
        except C.InjectedFault as e:
            caught = e
        if caught is None:
            return [], False   # converged before the k-th loss invocation: nothing injected
        nb = cal.current_batch_index
        recorded = [abs(x) for x in script[:nb * bs]]
        if cal.losses_samp.tolist() != recorded or cal.n_sampled_params != nb * bs:
            return [("history-not-prefix", f"after the fault: losses {cal.losses_samp.tolist()}, {nb} completed batches of the script give {recorded}")], True
        rec.fault = {}
        try:
            with quiet():
                cal.calibrate(3)
        except Exception as e:  # noqa: BLE001
            return [("scheduler-unusable", f"the next calibrate(3) raised {type(e).__name__}: {e}")], True
        # reference: script positions consumed so far = (nb + 1) * bs (the failed batch was simulated); afterwards the tail value 5.0
        full = list(script) + [5.0] * (6 * bs)
        exp, ran = list(recorded), 0
        pos = (nb + 1) * bs
        for _ in range(3):
            exp += [abs(x) for x in full[pos:pos + bs]]
            pos += bs
            ran += 1
            if p is not None and converged(min(exp), p):
                break
        if cal.current_batch_index != nb + ran:
            key = "stopped-early-after-fault" if cal.current_batch_index < nb + ran else "stopped-late-after-fault"
            v.append((key, f"after a failed batch the next calibrate(3) ran {cal.current_batch_index - nb} batch(es); the recorded losses {exp} prescribe {ran} (precision {p})"))
        elif cal.losses_samp.tolist() != exp:
            v.append(("next-batch-misaligned", f"losses after the retry {cal.losses_samp.tolist()} != {exp}"))
    return v, True


def scripted_fault_cell(cell):
    res = {"evaluations": 0, "nontrivial": 0, "states": 0, "transitions": 0, "traces": 0, "stats": {}, "outcomes": set(), "violations": [], "samples": []}
    for case in cell["cases"]:
        vs, fired = scripted_fault_case(case)
        res["stats"]["scripted_fault_positions_tried"] = res["stats"].get("scripted_fault_positions_tried", 0) + 1
        if not fired:
            continue
        res["evaluations"] += 1
        res["traces"] += 1
        res["transitions"] += 5
        res["nontrivial"] += 1
        res["outcomes"].add(("scripted-fault", case["k"] % case["bs"] > 0))
        for key, what in vs:
            if sum(1 for x in res["violations"] if x["key"] == key) < 1:
                res["violations"].append({"key": key, "what": f"[scripted losses {case['script']}, batch size {case['bs']}, precision {case['p']}, loss failing at invocation #{case['k']}] {what}", "case": dict(case, mode="scripted-fault")})
    res["states"] = res["evaluations"]
    res["outcomes"] = sorted(res["outcomes"], key=repr)
    return res


def run_cell(cell):
    if cell.get("kind") == "early-stop":
        return early_stop_cell(cell)
    if cell.get("kind") == "scripted-fault":
        return scripted_fault_cell(cell)
    res = {"evaluations": 0, "nontrivial": 0, "states": 0, "transitions": 0, "traces": 0, "stats": {}, "outcomes": set(), "violations": [], "samples": []}
    cfg, n, rl = cell["cfg"], cell["n"], "scheduler" in cell["cfg"]
    twin = fault_free(cfg, n, rl)
    for source, k in cell["faults"]:
        res["stats"]["fault_positions_tried"] = res["stats"].get("fault_positions_tried", 0) + 1
        if rl:
            # every interleaving of the calibration thread and the agent thread, modulo commutation of independent steps
            runs = ex.explore_por(lambda p, sl: (lambda r: (r[1], r))(run_fault(cfg, source, k, n, twin, prefix=p, sleep_at=sl)), max_execs=2000)
            for prefix, ctl, r in runs:
                vs, _, fired = r
                if not fired:
                    break
                res["evaluations"] += 1
                res["traces"] += 1
                res["transitions"] += ctl.n_points
                res["nontrivial"] += 1
                res["outcomes"].add(("rl", source))
                for key, what in vs:
                    if sum(1 for x in res["violations"] if x["key"] == key) < 1:
                        res["violations"].append({"key": key, "what": f"[RL scheduler, fault in {source} invocation #{k}, schedule {list(ctl.choices)}] {what}",
                                                  "case": {"cfg": cfg, "n": n, "source": source, "k": k, "schedule": list(ctl.choices), "folder": False}})
        else:
            vs, _, fired = run_fault(cfg, source, k, n, twin, folder=cell.get("folder", False))
            if not fired:
                continue
            res["evaluations"] += 1
            res["traces"] += 1
            res["transitions"] += n
            res["nontrivial"] += 1
            res["outcomes"].add(("rr", source, cell.get("folder", False)))
            for key, what in vs:
                if sum(1 for x in res["violations"] if x["key"] == key) < 1:
                    res["violations"].append({"key": key, "what": f"[round-robin, folder={cell.get('folder', False)}, fault in {source} invocation #{k}] {what}",
                                              "case": {"cfg": cfg, "n": n, "source": source, "k": k, "schedule": None, "folder": cell.get("folder", False)}})
    res["states"] = res["evaluations"]
    res["samples"] = [{"scheduler": "rl" if rl else "rr", "faults": cell["faults"][:3], "batches": n}]
    res["outcomes"] = sorted(res["outcomes"], key=repr)
    return res


def replay_case(case):
    if case.get("mode") == "early-stop":
        r = early_stop_cell({"cfg": case["cfg"], "n": case["n"], "bound": 1})
        return [{"key": v["key"], "what": v["what"]} for v in r["violations"]]
    if case.get("mode") == "scripted-fault":
        return [{"key": k, "what": w} for k, w in scripted_fault_case(case)[0]]
    rl = "scheduler" in case["cfg"]
    twin = fault_free(case["cfg"], case["n"], rl)
    vs, _, _ = run_fault(case["cfg"], case["source"], case["k"], case["n"], twin, prefix=case.get("schedule"), folder=case.get("folder", False))
    return [{"key": k, "what": w} for k, w in vs]


def main(ctx):
    S = ctx.seed
    n = 3 if ctx.quick else 8
    ens = 2 if ctx.quick else 3
    calls_per_batch = ens * 2
    cells = []
    model_faults = [("model", k) for k in range(n * calls_per_batch)]
    loss_faults = [("loss", k) for k in range(n * 2)]
    sampler_faults = [("sampler", k) for k in range(n + 2)]
    interrupts = [("interrupt", k) for k in range(0, n * calls_per_batch, 2)]
    # other kinds of exception out of user code: StopIteration (swallowed by any lazy iteration around the call), SystemExit
    flavoured = [(f"{src}:{fl}", k) for fl in ("value", "lookup", "os") for src, ks in (("loss", range(0, n * 2, 2)), ("sampler", range(n)), ("model", range(0, n * calls_per_batch, 3)))
                 for k in ks]
    flavoured += [(f"{src}:{fl}", k) for fl in ("stop", "exit") for src, ks in (("loss", range(n * 2)), ("sampler", range(n)), ("model", range(0, n * calls_per_batch, 2))) for k in ks if not (src == "model" and fl == "exit")]
    allf = model_faults + loss_faults + sampler_faults + interrupts + flavoured
    for folder in (False, True):
        for i in range(0, len(allf), 6):
            cells.append({"cfg": base_cfg("rr", S, ens), "n": n, "faults": allf[i:i + 6], "folder": folder})
    for i in range(0, len(allf), 2):
        cells.append({"cfg": base_cfg("rl", S, ens), "n": n, "faults": allf[i:i + 2], "bound": 1 if ctx.quick else 2})
    # a line-up whose second sampler cannot run on an empty history: a retry by the wrong sampler is not even possible
    hb = dict(base_cfg("rr", S + 1, ens), lineup=[{"cls": "Halton", "bs": 2}, {"cls": "BestBatch", "bs": 2}])
    for i in range(0, len(allf), 8):
        cells.append({"cfg": hb, "n": n, "faults": allf[i:i + 8], "folder": False})
    # a line-up with the particle swarm (it remembers where ITS last batch starts in the history: a batch of its own that failed was never appended)
    ps = dict(base_cfg("rr", S + 2, ens), lineup=[{"cls": "Halton", "bs": 2}, {"cls": "ParticleSwarm", "bs": 3}])
    for i in range(0, len(allf), 8):
        cells.append({"cfg": ps, "n": max(n, 4), "faults": allf[i:i + 8], "folder": False})
    cells.append({"kind": "early-stop", "cfg": base_cfg("rl", S, 1), "n": 6, "bound": 1 if ctx.quick else 2})
    # scripted losses x convergence precision x the loss failing at every invocation of the first two batches
    import itertools

    sc = []
    for bs in (2, 3):
        for script in itertools.product((4.0, 0.3, 0.0) if bs == 2 or not ctx.quick else (4.0, 0.0), repeat=2 * bs):
            for p in (0, None):
                for k in range(2 * bs):
                    sc.append({"script": list(script), "bs": bs, "p": p, "k": k, "verbose": (k + bs) % 2 == 0})
    for i in range(16):
        cells.append({"kind": "scripted-fault", "cases": sc[i::16]})
    ctx.bounds = {"batches": n, "ensemble": ens, "early_stop": "RL scheduler left through the convergence break (no fault), every interleaving modulo independence", "lineup": [s["cls"] for s in LINEUP], "fault_sources": ["model", "loss", "sampler", "interrupt (a KeyboardInterrupt subclass raised by the model)", "StopIteration / SystemExit subclasses raised by loss, sampler, model"],
                  "fault_positions": len(allf), "scripted_losses_with_a_failing_loss": len(sc), "rr": "with and without saving folder", "rl": "every interleaving modulo commutation of independent steps (sleep sets), capped at 2000 per fault position"}
    ctx.rule = "one execution per (scheduler, folder, fault source, invocation index[, schedule]); every one injects exactly one fault"
    ctx.assumptions = ["n_jobs=1 (the fault position must be owned)", "RL + saving folder is not reachable (C04 known finding)"]
    try:
        ctx.pmap("vf.checks.c11:run_cell", cells)
    except rh.HarnessBroken as e:
        raise HarnessError(str(e)) from e
    ctx.require(ctx.stats.get("fault_positions_tried", 0) >= 3 * len(allf) and ctx.evaluations >= 2 * len(allf), "too few fault positions")
    ctx.require(any(o[0] == "rl" for o in ctx.outcomes) and any(o[0] == "rr" for o in ctx.outcomes), "one scheduler kind was not exercised")
    ctx.require(("scripted-fault", True) in ctx.outcomes, "no loss fault at a within-batch position >= 1 was injected in the scripted cell")
    ctx.require(("early-stop", True) in ctx.outcomes, "the convergence break was never taken under the RL scheduler")
