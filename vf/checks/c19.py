"""C19 - the bandit agent and the reward follow their published update rules (E4, explicit-state).

Agent : depth-first over every event sequence {learn(a, r), policy()} up to a depth bound for a lattice
        of (n_actions, alpha, eps, initial value, seed); after every event the real agent is compared
        with a reference (incremental update, step 1/count or alpha; all other entries untouched).
        policy(): python int in [0,n); with eps=0 an index of maximal estimate; a twin agent with the
        same seed fed the same events - with the global numpy/python RNGs disturbed - answers the same.
Env   : every sequence of best-loss values up to a length bound after a bootstrap value, through
        get_reward() and through step() (queues pre-filled, single thread): relative-improvement rule,
        reference best moves only on improvement.
"""
from __future__ import annotations

import copy
import itertools
import random

import numpy as np

ID = "C19"
TITLE = "The bandit agent and reward follow their published update rules"
REWARDS = [0.0, 0.25, 1.0]
TOL = 1e-12


def _agent(cfg):
    from black_it.schedulers.rl.agents.epsilon_greedy import MABEpsilonGreedy

    return MABEpsilonGreedy(n_actions=cfg["n"], alpha=cfg["alpha"], eps=cfg["eps"], initial_values=cfg["init"], random_state=cfg["seed"])


def _apply(agent, ev):
    if ev[0] == "reset":
        agent.reset()
        return None
    if ev[0] == "learn":
        agent.learn(0, ev[1], ev[2], 0)
        return None
    return agent.policy(0)


def _ref_learn(Q, cnt, alpha, a, r):
    cnt = list(cnt)
    Q = list(Q)
    cnt[a] += 1
    step = 1.0 / cnt[a] if alpha == -1 else alpha
    Q[a] = Q[a] + step * (r - Q[a])
    return Q, cnt


def _judge_event(cfg, hist, ev, agent_before_Q, agent, ret, refQ, refcnt):
    v = []
    n = cfg["n"]
    if ev[0] == "reset":
        # what reset() sets the estimates to is not the property's subject; that estimates and counts are two vectors of n numbers is
        if len(agent.Q) != n or len(agent.actions_count) != n or agent.Q is agent.actions_count:
            v.append(("reset-state", f"after reset(): Q={agent.Q!r}, actions_count={agent.actions_count!r} (same object: {agent.Q is agent.actions_count})"))
        return v
    if ev[0] == "learn":
        a = ev[1]
        Q = [float(x) for x in agent.Q]
        if list(agent.actions_count) != refcnt:
            v.append(("counts", f"actions_count {list(agent.actions_count)} != reference {refcnt}"))
        for i in range(n):
            if i != a and Q[i] != agent_before_Q[i]:
                v.append(("other-estimate-changed", f"Q[{i}] changed from {agent_before_Q[i]} to {Q[i]} on learn({a})"))
        if abs(Q[a] - refQ[a]) > TOL * max(1.0, abs(refQ[a])):
            v.append(("update-rule", f"Q[{a}] = {Q[a]!r}, reference {refQ[a]!r} (alpha={cfg['alpha']}, count={refcnt[a]})"))
    else:
        if type(ret) is not int:
            v.append(("policy-type", f"policy() returned {type(ret).__name__}"))
        if not (0 <= ret < n):
            v.append(("policy-range", f"policy() returned {ret} for {n} actions"))
        elif cfg["eps"] == 0 and agent.Q[ret] != max(agent.Q):
            v.append(("greedy-not-argmax", f"eps=0 chose {ret} with Q={list(agent.Q)}"))
        if list(agent.Q) != agent_before_Q:
            v.append(("policy-changed-estimates", "policy() modified Q"))
    return v


def _replay_hist(cfg, hist):
    """Straight-line re-execution of one event history with all oracles; returns (violations, choices)."""
    agent = _agent(cfg)
    refQ, refcnt = [float(cfg["init"])] * cfg["n"], [0] * cfg["n"]
    vs, choices = [], []
    for k, ev in enumerate(hist):
        ev = tuple(ev)
        before = [float(x) for x in agent.Q]
        ret = _apply(agent, ev)
        if ev[0] == "learn":
            refQ, refcnt = _ref_learn(refQ, refcnt, cfg["alpha"], ev[1], ev[2])
        elif ev[0] == "reset":
            refQ, refcnt = [float(x) for x in agent.Q], [int(x) for x in agent.actions_count]
        else:
            choices.append(ret)
        vs += _judge_event(cfg, hist[:k], ev, before, agent, ret, refQ, refcnt)
    return vs, choices


def agent_cell(cell):
    cfg, depth = cell["cfg"], cell["depth"]
    n = cfg["n"]
    events = [("policy",)] + [("learn", a, r) for a in range(n) for r in REWARDS] + [("reset",)]
    res = {"evaluations": 0, "nontrivial": 0, "states": 0, "transitions": 0, "traces": 0, "stats": {}, "outcomes": set(), "violations": [], "samples": []}
    seen = set()

    def canon(agent):
        return (tuple(agent.Q), tuple(agent.actions_count), repr(agent.random_generator.bit_generator.state["state"]))

    def rec(agent, refQ, refcnt, hist):
        if len(hist) == depth:
            res["evaluations"] += 1
            res["traces"] += 1
            return
        for ev in events:
            a2 = copy.deepcopy(agent)
            before = [float(x) for x in a2.Q]
            ret = _apply(a2, ev)
            res["transitions"] += 1
            if ev[0] == "learn":
                q2, c2 = _ref_learn(refQ, refcnt, cfg["alpha"], ev[1], ev[2])
                res["nontrivial"] += 1
            elif ev[0] == "reset":
                q2, c2 = [float(x) for x in a2.Q], [int(x) for x in a2.actions_count]
            else:
                q2, c2 = refQ, refcnt
                res["outcomes"].add(("choice", ret))
            vs = _judge_event(cfg, hist, ev, before, a2, ret, q2, c2)
            h2 = hist + [list(ev)]
            for key, what in vs:
                if len(res["violations"]) < 4:
                    res["violations"].append({"key": key, "what": f"cfg={cfg} after {hist} event {ev}: {what}", "case": {"mode": "agent", "cfg": cfg, "hist": h2}})
            if vs:
                continue
            c = canon(a2)
            if c not in seen:
                seen.add(c)
            rec(a2, q2, c2, h2)

    rec(_agent(cfg), [float(cfg["init"])] * n, [0] * n, [])
    res["states"] = len(seen)
    # determinism: complete event histories of policy-only and mixed pattern, twin agents with disturbed global RNG
    for pattern in itertools.product([("policy",), ("learn", 0, 1.0), ("learn", n - 1, 0.25)], repeat=min(depth, 4)):
        np.random.seed(1)
        _, c1 = _replay_hist(cfg, [list(e) for e in pattern])
        np.random.seed(2)
        random.seed(9)
        np.random.random(3)
        _, c2 = _replay_hist(cfg, [list(e) for e in pattern])
        res["evaluations"] += 1
        if c1 != c2:
            res["violations"].append({"key": "choices-not-deterministic", "what": f"cfg={cfg} events {pattern}: choices {c1} vs {c2} for twin agents",
                                      "case": {"mode": "twin", "cfg": cfg, "hist": [list(e) for e in pattern]}})
    # re-seeding a USED agent through the public random_state setter (what a scheduler does when the agent enters a second calibration):
    # from then on it chooses like a new agent with that seed and the same estimates
    if cfg["eps"] > 0:
        from black_it.schedulers.rl.agents.epsilon_greedy import MABEpsilonGreedy

        for pattern in itertools.product([("policy",), ("learn", 0, 1.0), ("learn", n - 1, 0.25)], repeat=min(depth, 3)):
            for npol in (0, 3, 12):
                used = _agent(cfg)
                for e in pattern:
                    _apply(used, e)
                for _ in range(npol):
                    used.policy(0)
                try:
                    used.random_state = 77
                    twin = MABEpsilonGreedy(n_actions=n, alpha=cfg["alpha"], eps=cfg["eps"], initial_values=cfg["init"], random_state=77)
                    twin.Q, twin.actions_count = list(used.Q), list(used.actions_count)
                except AttributeError:
                    res["stats"]["reseed_twin_not_constructible"] = 1   # estimates are not plain assignable attributes here: nothing to compare
                    break
                c1 = [used.policy(0) for _ in range(8)]
                c2 = [twin.policy(0) for _ in range(8)]
                res["evaluations"] += 1
                if c1 != c2:
                    res["violations"].append({"key": "reseed-does-not-restart", "what": f"cfg={cfg} after events {pattern} and {npol} more policy() calls, random_state = 77: choices {c1}, a new agent with seed 77 and the same estimates chooses {c2}",
                                              "case": {"mode": "reseed", "cfg": cfg, "hist": [list(e) for e in pattern], "npol": npol}})
                    break
    res["samples"] = [{"cfg": cfg, "events": [list(e) for e in events[:3]], "depth": depth}]
    res["outcomes"] = sorted(res["outcomes"], key=repr)
    return res


# ---------------------------------------------------------------------------------------------
def _env(n=2):
    from black_it.schedulers.rl.envs.mab import MABCalibrationEnv

    return MABCalibrationEnv(n)


def _ref_rewards(boot, seq):
    ref, out = boot, []
    for new in seq:
        if isinstance(new, str):  # a session boundary (env.reset()): the reference best is not forgotten
            continue
        if new < ref:
            out.append((ref - new) / ref)
            ref = new
        else:
            out.append(0.0)
    return out


def _env_seq(boot, seq, via):
    env = _env(2)
    env._curr_best_loss = boot  # noqa: SLF001  (what RLScheduler.update does at bootstrap)
    got = []
    for i, new in enumerate(seq):
        if new == "reset":
            env.reset()
            continue
        if new == "reset-seed":
            env.reset(seed=5)
            continue
        if via == "get_reward":
            got.append(env.get_reward(np.array([0.0]), new))
        else:
            env._in_queue.put((np.array([0.0]), new))  # noqa: SLF001
            obs, reward, term, trunc, info = env.step(i % 2)
            act = env._out_queue.get_nowait()  # noqa: SLF001
            if act != i % 2 or term or trunc:
                got.append(("bad-step", act, term, trunc))
            else:
                got.append(reward)
    return got


def _judge_env(boot, seq, via):
    try:
        got = _env_seq(boot, seq, via)
    except AttributeError:
        if via == "step":
            return []  # the queue attributes were renamed by a refactor: the step() path cannot be driven single-threaded; get_reward() still is
        raise
    ref = _ref_rewards(boot, seq)
    v = []
    for i, (g, r) in enumerate(zip(got, ref)):
        if isinstance(g, tuple):
            v.append(("step-protocol", f"step() #{i}: {g}"))
        elif abs(float(g) - r) > TOL * max(1.0, abs(r)):
            v.append(("reward-rule", f"boot={boot} losses={list(seq)} via {via}: reward #{i} = {g!r}, reference {r!r}"))
            break
    return v


def env_cell(cell):
    res = {"evaluations": 0, "nontrivial": 0, "states": 0, "transitions": 0, "traces": 0, "stats": {}, "outcomes": set(), "violations": [], "samples": []}
    vals, L = cell["values"], cell["length"]
    for boot in cell["boots"]:
        for ln in range(1, L + 1):
            for seq in itertools.product(vals + (["reset", "reset-seed"] if ln <= cell.get("reset_len", 4) else []), repeat=ln):
                if isinstance(seq[-1], str):
                    continue
                for via in ("get_reward", "step"):
                    res["evaluations"] += 1
                    res["traces"] += 1
                    res["transitions"] += ln
                    ref = _ref_rewards(boot, seq)
                    if sum(1 for r in ref if r > 0) >= 1 and any(r == 0 for r in ref):
                        res["nontrivial"] += 1
                    res["outcomes"].add(tuple(r > 0 for r in ref) if "reset" not in seq and "reset-seed" not in seq else ("with-reset", tuple(r > 0 for r in ref)))
                    for key, what in _judge_env(boot, seq, via):
                        if len(res["violations"]) < 4:
                            res["violations"].append({"key": key, "what": what, "case": {"mode": "env", "boot": boot, "seq": list(seq), "via": via}})
    # end-of-session marker through step(): truncated, zero reward, reference untouched
    env = _env(2)
    env._curr_best_loss = 3.0  # noqa: SLF001
    try:
        env._in_queue.put(None)  # noqa: SLF001
        obs, reward, term, trunc, _ = env.step(1)
    except AttributeError:
        trunc, reward = True, 0.0
    res["evaluations"] += 1
    if not trunc or reward != 0.0 or env._curr_best_loss != 3.0:  # noqa: SLF001
        res["violations"].append({"key": "end-marker", "what": f"step() on None marker returned reward={reward} truncated={trunc} best={env._curr_best_loss}", "case": {"mode": "env-marker"}})  # noqa: SLF001
    res["states"] = res["evaluations"]
    res["samples"] = [{"boot": cell["boots"][0], "losses": vals[:3], "reference_rewards": _ref_rewards(cell["boots"][0], vals[:3])}]
    res["outcomes"] = sorted(res["outcomes"], key=repr)
    return res


def replay_case(case):
    if case["mode"] in ("agent",):
        vs, _ = _replay_hist(case["cfg"], case["hist"])
        return [{"key": k, "what": w} for k, w in vs]
    if case["mode"] == "twin":
        np.random.seed(1)
        _, c1 = _replay_hist(case["cfg"], case["hist"])
        np.random.seed(2)
        np.random.random(3)
        _, c2 = _replay_hist(case["cfg"], case["hist"])
        return [{"key": "choices-not-deterministic", "what": f"{c1} vs {c2}"}] if c1 != c2 else []
    if case["mode"] == "reseed":
        r = agent_cell({"cfg": case["cfg"], "depth": 1})
        return [{"key": v["key"], "what": v["what"]} for v in r["violations"] if v["key"] == "reseed-does-not-restart"] or \
               [{"key": v["key"], "what": v["what"]} for v in agent_cell({"cfg": case["cfg"], "depth": 3})["violations"] if v["key"] == "reseed-does-not-restart"]
    if case["mode"] == "env":
        return [{"key": k, "what": w} for k, w in _judge_env(case["boot"], tuple(case["seq"]), case["via"])]
    r = env_cell({"values": [1.0], "length": 0, "boots": [3.0]})
    return [{"key": v["key"], "what": v["what"]} for v in r["violations"]]


def run_cell(cell):
    return agent_cell(cell) if cell["kind"] == "agent" else env_cell(cell)


def main(ctx):
    S = ctx.seed
    cells = []
    for n in (1, 2, 3):
        for alpha in (-1, 0.1, 0.5, 1.0, 0.0, 0):   # 0 = an agent frozen on its initial estimates (a constant learning rate like any other)
            for eps in (0.0, 0.3, 1.0):
                for init in (0.0, 1.0, 0, 1):  # python ints are legitimate initial values too
                    for seed in (S, S + 1):
                        if ctx.quick:
                            depth = {1: 5, 2: 4, 3: 3}[n]
                        else:
                            depth = {1: 7, 2: 5, 3: 4}[n]
                        cells.append({"kind": "agent", "depth": depth, "cfg": {"n": n, "alpha": alpha, "eps": eps, "init": init, "seed": seed}})
    vals = [4.0, 2.0, 1.0, 3.0, 0.5]
    L = 5 if ctx.quick else 6
    for b in (3.0, 1.0, 2.0, 1e-9, 1e9):
        cells.append({"kind": "env", "values": vals, "length": L, "boots": [b]})
    # scale corners: a nearly converged calibration (losses around 1e-13), negative losses (e.g. a log-likelihood), a change of sign
    for b in (8e-13, 3e-13):
        cells.append({"kind": "env", "values": [4e-13, 2e-13, 1e-13, 3e-13, 5e-14], "length": L - 1, "boots": [b]})
    for b in (-0.5, 1.0, -3.5):
        cells.append({"kind": "env", "values": [-1.0, -2.0, -0.5, -4.0, 0.25], "length": L - 1, "boots": [b]})
    cells.sort(key=lambda c: 0 if c["kind"] == "env" else -((1 + 3 * c["cfg"]["n"]) ** c["depth"]))
    ctx.bounds = {"agent": "n_actions 1..3, alpha {-1,0,.1,.5,1}, eps {0,.3,1}, init {0,1}, seeds {S,S+1}; events policy|learn(a,r in {0,.25,1}); depth by n",
                  "env": f"bootstrap in {{3,1,2,1e-9,1e9}}, all sequences over {vals} up to length {L}, via get_reward and via step; losses around 1e-13 and negative losses up to length {L - 1}"}
    ctx.rule = "every event sequence up to the depth bound (agent) / every loss sequence up to the length bound (env); non-trivial = learn events / sequences mixing improvement and stall"
    ctx.assumptions = ["reference update rule written from the property text; tolerance 1e-12 on the updated estimate, exact equality on untouched ones"]
    ctx.pmap("vf.checks.c19:run_cell", cells)
    ctx.require(ctx.nontrivial > 1000, "too few learn events")
    ctx.require(len([o for o in ctx.outcomes if o and o[0] == "choice"]) >= 3, "policy never returned all three actions")
