"""C10 - the RL scheduler/agent exchange is correct under every thread interleaving (E1).

For every configuration (session shape, loss script, agent, sampler set) the real RLScheduler, env and
agent are executed under the controlled-thread explorer:
  Tier A : scheduling points = queue put/get/empty, thread start/join/exit, reads/writes of the
           session flag and of the environment's reference loss; ALL interleavings for small shapes, a
           preemption bound beyond.
  Tier B : every source line executed inside black_it/schedulers is a scheduling point; preemption
           bound 1 (quick) / 2 (thorough).
Every complete execution is judged by the sequential reference monitor (vf/sched/rl_harness.monitor);
all executions of one configuration must produce the same sampler and learn sequences.
"""
from __future__ import annotations

import itertools

from vf.core import HarnessError
from vf.sched import explore as ex
from vf.sched import rl_harness as rh

ID = "C10"
TITLE = "The RL scheduler-agent exchange is correct under every thread interleaving"


def explore_cell(cell):
    cfg, mode, bound, max_execs = cell["cfg"], cell["mode"], cell["bound"], cell.get("max_execs")
    res = {"evaluations": 0, "nontrivial": 0, "states": 0, "transitions": 0, "traces": 0, "stats": {}, "outcomes": set(), "violations": [], "samples": []}
    st = res["stats"]
    states = set()
    outcomes = {}
    viol_seen = set()

    def run_one(prefix):
        if cell.get("driver") == "calibrator":
            return rh.run_calibrator(cfg, prefix, mode=mode)
        return rh.run_protocol(cfg, prefix, mode=mode)

    best = {}
    n_viol, stopped = 0, False
    if cell.get("por"):
        def run_por(prefix, sleep_at):
            if cell.get("driver") == "calibrator":
                return rh.run_calibrator(cfg, prefix, mode=mode, sleep_at=sleep_at)
            return rh.run_protocol(cfg, prefix, mode=mode, sleep_at=sleep_at)

        runs = ex.explore_por(run_por, max_execs=max_execs)
    else:
        runs = ex.explore(run_one, bound=bound, max_execs=max_execs)
    for prefix, ctl, obs in runs:
        res["evaluations"] += 1
        res["traces"] += 1
        res["transitions"] += ctl.n_points
        states.update(ctl.state_hashes)
        pre = ex.preemptions(ctl.points, ctl.choices)
        if pre >= 1:
            res["nontrivial"] += 1
        st[f"executions_with_{min(pre, 3)}{'+' if pre >= 3 else ''}_preemptions"] = st.get(f"executions_with_{min(pre, 3)}{'+' if pre >= 3 else ''}_preemptions", 0) + 1
        vs = rh.monitor(obs)
        oc = rh.outcome(obs)
        outcomes.setdefault(oc, (list(ctl.choices), pre))
        for key, what in vs:
            if key not in best or pre < best[key][0]:
                best[key] = (pre, what, list(ctl.choices))
        n_viol += bool(vs)
        if n_viol >= 40:
            # the property is already refuted for this configuration many times over: stop unrolling a broken state space
            st["cells_stopped_after_40_violating_executions"] = 1
            stopped = True
            break
        if not res["samples"] and pre >= 1:
            res["samples"].append({"cfg": cfg, "mode": mode, "schedule": list(ctl.choices), "preemptions": pre,
                                   "samplers": [repr(s) for s in obs["samplers"]], "log": [list(e) for e in obs["log"]]})
    if (ex.explore_por.capped if cell.get("por") else ex.explore.capped):
        res["caps_hit"] = [f"max_execs={max_execs} reached for shape {cfg['shape']} in mode {mode}"]
    if cell.get("por"):
        st["por_pruned_executions"] = ex.explore_por.pruned
        st["por_cells"] = 1
        if cell.get("crosscheck") and not stopped:
            # soundness cross-check of the reduction: the unreduced search over ALL interleavings must see the same outcomes and the same violation keys
            outs2, keys2 = set(), set()
            for _, ctl2, obs2 in ex.explore(run_one, bound=None, max_execs=60000):
                outs2.add(rh.outcome(obs2))
                keys2 |= {k for k, _ in rh.monitor(obs2)}
                res["evaluations"] += 1
                res["traces"] += 1
                res["transitions"] += ctl2.n_points
            st["por_crosschecked_cells"] = 1
            if not ex.explore.capped and (outs2 != set(outcomes) or keys2 != set(best)):
                return {"harness_error": f"partial-order reduction disagrees with the unreduced search for {cfg}: outcomes {len(outcomes)} vs {len(outs2)}, keys {sorted(best)} vs {sorted(keys2)}", "cell": cell}
    for key, (pre, what, choices) in best.items():
        res["violations"].append({"key": key, "what": f"{what} [cfg={cfg}, mode={mode}, preemptions={pre}]",
                                  "case": {"cfg": cfg, "mode": mode, "schedule": choices, "driver": cell.get("driver", "protocol")}})
    if len(outcomes) > 1 and not best:
        (o1, (c1, p1)), (o2, (c2, p2)) = list(outcomes.items())[:2]
        res["violations"].append({"key": "timing-dependent-choice",
                                  "what": f"{len(outcomes)} different sampler/learn sequences depending on the schedule, e.g. {o1} vs {o2} [cfg={cfg}, mode={mode}]",
                                  "case": {"cfg": cfg, "mode": mode, "schedule": c1, "schedule2": c2, "driver": cell.get("driver", "protocol")}})
    st["configs"] = 1
    st["configs_with_2+_schedules"] = 1 if res["evaluations"] + st.get("por_pruned_executions", 0) >= 2 else 0
    res["states"] = len(states)
    res["outcomes"] = [(str(cfg["shape"]), cfg["losses"], str(cfg["agent"]), len(outcomes))]
    return res


def replay_case(case):
    run = rh.run_calibrator if case.get("driver") == "calibrator" else rh.run_protocol
    ctl, obs = run(case["cfg"], case["schedule"], mode=case["mode"])
    out = [{"key": k, "what": w} for k, w in rh.monitor(obs)]
    if "schedule2" in case:
        _, obs2 = run(case["cfg"], case["schedule2"], mode=case["mode"])
        if rh.outcome(obs) != rh.outcome(obs2):
            out.append({"key": "timing-dependent-choice", "what": f"{rh.outcome(obs)} vs {rh.outcome(obs2)}"})
    return out


def _shapes(max_sessions, max_batches):
    out = []
    for ns in range(1, max_sessions + 1):
        out += [list(s) for s in itertools.product(range(1, max_batches + 1), repeat=ns)]
    return out


def main(ctx):
    S = ctx.seed
    cells = []
    shapes = _shapes(2, 2) if ctx.quick else _shapes(3, 3)
    shapes += [[1, 1, 1, 1], [2, 1, 2, 1], [4, 4]] if ctx.quick else [[1, 1, 1, 1], [2, 1, 2, 1], [4, 4], [1, 1, 1, 1, 1, 1], [5, 5], [3, 1, 3, 1, 3]]   # larger-scope probes
    for shape in shapes:
        total = sum(shape)
        for losses in ("improving", "never", "mixed", "to_zero", "with_inf", "with_nan"):
            agents = []
            nscript = total  # non-bootstrap batches + one pending choice
            scripts = list(itertools.product((0, 1), repeat=min(nscript, 3 if ctx.quick else 4)))
            for sc in scripts:
                agents.append({"kind": "scripted", "script": list(sc)})
            for eps in (0.0, 0.5):
                for seed in (S, S + 1):
                    agents.append({"kind": "eps", "eps": eps, "seed": seed, "alpha": -1 if eps == 0.0 else 0.5})
            for ai, agent in enumerate(agents):
                for samplers in (("with_halton", "without_halton") if ai % 2 == 0 else ("with_halton",)):
                    cfg = {"shape": shape, "losses": losses, "agent": agent, "samplers": samplers}
                    if losses in ("with_inf", "with_nan") and ai % 3:
                        continue
                    if losses == "to_zero":
                        if ai % 3:
                            continue
                        cfg["l0"] = 5.0   # the best loss becomes exactly 0.0 during the run
                    # (1) ALL interleavings modulo commutation of independent steps (sleep sets), every shape and configuration;
                    #     for the two smallest shapes the unreduced search is run as well and must agree
                    cells.append({"cfg": cfg, "mode": "sync", "bound": None, "max_execs": 60000, "por": True, "crosscheck": shape in ([1], [2]) and ai < 3})
                    # (2) independence-assumption-free: unreduced search with a preemption bound on a slice of the configurations
                    if ai % 4 == 0 and shape not in ([1], [2]):
                        cells.append({"cfg": cfg, "mode": "sync", "bound": 2 if ctx.quick else 3, "max_execs": 40000})
    # Tier B: line granularity, fewer configurations
    tierb_shapes = [[1], [2], [1, 1], [2, 2]] if ctx.quick else [[1], [2], [1, 1], [1, 2], [2, 1], [2, 2], [3], [2, 2, 2], [3, 3]]
    for shape in tierb_shapes:
        for losses in ("improving", "mixed"):
            for agent in ({"kind": "scripted", "script": [1, 0, 1]}, {"kind": "eps", "eps": 0.5, "seed": S, "alpha": 0.5}):
                cfg = {"shape": shape, "losses": losses, "agent": agent, "samplers": "with_halton"}
                cells.append({"cfg": cfg, "mode": "line", "bound": 1 if ctx.quick or sum(shape) > 4 else 2, "max_execs": 30000})
    # a batch that fails (before or after the agent's action was taken) followed by further sessions: the exchange must recover
    for shape in ([[2, 2], [1, 3], [3, 2]] if ctx.quick else [[2, 2], [1, 3], [3, 2], [2, 2, 2], [1, 1, 3], [3, 3]]):
        for si in range(len(shape) - 1):
            for bi in range(shape[si]):
                for where in ("before_get", "after_get"):
                    for agent in ({"kind": "scripted", "script": [1, 0, 0, 1]}, {"kind": "scripted", "script": [0, 1]}, {"kind": "eps", "eps": 0.5, "seed": S, "alpha": 0.5}):
                        cfg = {"shape": shape, "losses": "mixed", "agent": agent, "samplers": "with_halton", "fault": {"session": si, "batch": bi, "where": where}}
                        cells.append({"cfg": cfg, "mode": "sync", "bound": None, "max_execs": 20000, "por": True})
                        if agent["kind"] == "scripted" and len(agent["script"]) == 4:
                            # the same with a Ctrl-C (a BaseException that is not an Exception) instead of an error
                            cells.append({"cfg": dict(cfg, fault=dict(cfg["fault"], kind="interrupt")), "mode": "sync", "bound": None, "max_execs": 20000, "por": True})
    # second driver: the real Calibrator.calibrate (real samplers, model, loss), one calibrate() call per session
    for shape in ([[2], [1, 2], [2, 2]] if ctx.quick else [[1], [2], [3], [1, 1], [1, 2], [2, 2], [2, 1, 2]]):
        for agent in ({"kind": "scripted", "script": [1, 0, 1]}, {"kind": "eps", "eps": 0.5, "seed": S, "alpha": 0.5}):
            for samplers in ("with_halton", "without_halton"):
                cells.append({"cfg": {"shape": shape, "losses": "real", "agent": agent, "samplers": samplers, "seed": S}, "mode": "sync", "bound": None, "max_execs": 4000, "driver": "calibrator", "por": True})
    # calibrate() calls that END THROUGH THE EARLY STOP (scripted losses, convergence precision 0), followed by further calls
    for script in ([5.0, 4.0, 0.2, 3.0, 2.0, 1.0, 0.7], [5.0, 0.0, 4.0, 3.0, 0.1, 2.0], [5.0, 4.0, 3.0, 2.0, 0.3, 1.0]):
        for shape in ([3, 2], [4, 1, 1], [2, 2, 2]):
            for agent in ({"kind": "scripted", "script": [1, 0, 1, 1, 0]}, {"kind": "eps", "eps": 0.5, "seed": S, "alpha": 0.5}):
                cells.append({"cfg": {"shape": shape, "losses": "real", "loss_script": script, "convergence_precision": 0, "agent": agent, "samplers": "with_halton", "seed": S},
                              "mode": "sync", "bound": None, "max_execs": 4000, "driver": "calibrator", "por": True})
    ctx.bounds = {"early_stop_sessions": "3 loss scripts x 3 shapes x 2 agents through the real Calibrator with convergence precision 0", "shapes": shapes, "faults": "a batch failing (error or keyboard interrupt) before / after the agent's action was taken, at every batch of every non-final session of [2,2],[1,3],[3,2] (thorough: 6 shapes), followed by the remaining sessions",
                  "second_driver": "real Calibrator.calibrate on [2],[1,2],[2,2] (thorough: 7 shapes), all interleavings modulo independence", "tierA": "ALL interleavings modulo commutation of independent steps (sleep-set reduction) for every shape and configuration; unreduced all-interleavings cross-check on shapes [1],[2]; unreduced search with preemption bound " + ("2" if ctx.quick else "3") + " on every fourth configuration of the larger shapes",
                  "tierB_shapes": tierb_shapes, "tierB_preemption_bound": "1" if ctx.quick else "2 (1 for > 4 batches)",
                  "agents": "all scripted action sequences over {0,1} (length <= 3 quick / 4 thorough) + eps-greedy eps {0,.5} seeds {S,S+1}",
                  "loss_scripts": list(rh.LOSS_SCRIPTS), "sampler_sets": ["with_halton", "without_halton"], "cells": len(cells)}
    ctx.rule = ("stateless DFS over schedules of the real two-thread exchange: Tier A all interleavings modulo commutation of independent steps (sleep sets; executions "
                "cut as equivalent are not counted), unreduced bounded search and line-granularity search with a preemption bound; evaluations = complete executions, each "
                "checked by the reference monitor; non-trivial = execution with >= 1 preemption; states = distinct canonical snapshots (reporting only, never used to prune)")
    ctx.assumptions = ["scheduling points: queue ops, thread start/join/exit, _stopped and _curr_best_loss accesses (Tier A); every line in black_it/schedulers (Tier B)",
                       "sleep-set reduction: operations on different queues, reads of a shared attribute and accesses to different attributes commute; everything a thread does between two scheduling points touches only thread-local state or state behind one of the points (Tier B, which assumes nothing of the kind, explores with a preemption bound)",
                       "bytecode-level interleavings inside one source line are not explored"]
    cells.sort(key=lambda c: -(sum(c["cfg"]["shape"]) * (50 if c["mode"] == "line" else 1)))
    try:
        ctx.pmap("vf.checks.c10:explore_cell", cells)
    except rh.HarnessBroken as e:
        raise HarnessError(str(e)) from e
    ctx.require(ctx.nontrivial > 100, "too few executions with a preemption")
    ctx.require(ctx.stats.get("por_crosschecked_cells", 0) > 0, "the reduction was never cross-checked against the unreduced search")
    ctx.require(ctx.stats.get("configs_with_2+_schedules", 0) == ctx.stats.get("configs", -1), "some configuration had a single schedule")
    multi = [o for o in ctx.outcomes if o[-1] != 1]
    ctx.extra["configs_with_more_than_one_outcome"] = len(multi)
