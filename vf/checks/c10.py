"""C10 - the RL scheduler/agent exchange is correct under every thread interleaving (E1).

For every configuration (session shape, loss script, agent, sampler set) the real RLScheduler, env and
agent are executed under the controlled-thread explorer:
  Tier A : scheduling points = queue put/get/empty, thread start/join/exit, reads/writes of the
           session flag and of the environment's reference loss; ALL interleavings for small shapes, a
           preemption bound beyond.
  Tier B : every source line executed inside black_it/schedulers is a scheduling point; preemption
           bound 1 (quick) / 2 (thorough).
Every complete execution is judged by the sequential reference monitor (vf/sched/rl_harness.monitor);
all executions of one configuration must produce the same sampler and learn sequences.
"""
from __future__ import annotations

import itertools

from vf.core import HarnessError
from vf.sched import explore as ex
from vf.sched import rl_harness as rh

ID = "C10"
TITLE = "The RL scheduler-agent exchange is correct under every thread interleaving"


def explore_cell(cell):
    cfg, mode, bound, max_execs = cell["cfg"], cell["mode"], cell["bound"], cell.get("max_execs")
    res = {"evaluations": 0, "nontrivial": 0, "states": 0, "transitions": 0, "traces": 0, "stats": {}, "outcomes": set(), "violations": [], "samples": []}
    st = res["stats"]
    states = set()
    outcomes = {}
    viol_seen = set()

    def run_one(prefix):
        if cell.get("driver") == "calibrator":
            return rh.run_calibrator(cfg, prefix, mode=mode)
        return rh.run_protocol(cfg, prefix, mode=mode)

    best = {}
    for prefix, ctl, obs in ex.explore(run_one, bound=bound, max_execs=max_execs):
        res["evaluations"] += 1
        res["traces"] += 1
        res["transitions"] += ctl.n_points
        states.update(ctl.state_hashes)
        pre = ex.preemptions(ctl.points, ctl.choices)
        if pre >= 1:
            res["nontrivial"] += 1
        st[f"executions_with_{min(pre, 3)}{'+' if pre >= 3 else ''}_preemptions"] = st.get(f"executions_with_{min(pre, 3)}{'+' if pre >= 3 else ''}_preemptions", 0) + 1
        vs = rh.monitor(obs)
        oc = rh.outcome(obs)
        outcomes.setdefault(oc, (list(ctl.choices), pre))
        for key, what in vs:
            if key not in best or pre < best[key][0]:
                best[key] = (pre, what, list(ctl.choices))
        if not res["samples"] and pre >= 1:
            res["samples"].append({"cfg": cfg, "mode": mode, "schedule": list(ctl.choices), "preemptions": pre,
                                   "samplers": [repr(s) for s in obs["samplers"]], "log": [list(e) for e in obs["log"]]})
    if ex.explore.capped:
        res["caps_hit"] = [f"max_execs={max_execs} reached for shape {cfg['shape']} in mode {mode}"]
    for key, (pre, what, choices) in best.items():
        res["violations"].append({"key": key, "what": f"{what} [cfg={cfg}, mode={mode}, preemptions={pre}]",
                                  "case": {"cfg": cfg, "mode": mode, "schedule": choices, "driver": cell.get("driver", "protocol")}})
    if len(outcomes) > 1 and not best:
        (o1, (c1, p1)), (o2, (c2, p2)) = list(outcomes.items())[:2]
        res["violations"].append({"key": "timing-dependent-choice",
                                  "what": f"{len(outcomes)} different sampler/learn sequences depending on the schedule, e.g. {o1} vs {o2} [cfg={cfg}, mode={mode}]",
                                  "case": {"cfg": cfg, "mode": mode, "schedule": c1, "schedule2": c2, "driver": cell.get("driver", "protocol")}})
    st["configs"] = 1
    st["configs_with_2+_schedules"] = 1 if res["evaluations"] >= 2 else 0
    res["states"] = len(states)
    res["outcomes"] = [(str(cfg["shape"]), cfg["losses"], str(cfg["agent"]), len(outcomes))]
    return res


def replay_case(case):
    run = rh.run_calibrator if case.get("driver") == "calibrator" else rh.run_protocol
    ctl, obs = run(case["cfg"], case["schedule"], mode=case["mode"])
    out = [{"key": k, "what": w} for k, w in rh.monitor(obs)]
    if "schedule2" in case:
        _, obs2 = run(case["cfg"], case["schedule2"], mode=case["mode"])
        if rh.outcome(obs) != rh.outcome(obs2):
            out.append({"key": "timing-dependent-choice", "what": f"{rh.outcome(obs)} vs {rh.outcome(obs2)}"})
    return out


def _shapes(max_sessions, max_batches):
    out = []
    for ns in range(1, max_sessions + 1):
        out += [list(s) for s in itertools.product(range(1, max_batches + 1), repeat=ns)]
    return out


def main(ctx):
    S = ctx.seed
    cells = []
    shapes = _shapes(2, 2) if ctx.quick else _shapes(3, 3)
    for shape in shapes:
        total = sum(shape)
        for losses in ("improving", "never", "mixed"):
            agents = []
            nscript = total  # non-bootstrap batches + one pending choice
            scripts = list(itertools.product((0, 1), repeat=min(nscript, 3 if ctx.quick else 4)))
            for sc in scripts:
                agents.append({"kind": "scripted", "script": list(sc)})
            for eps in (0.0, 0.5):
                for seed in (S, S + 1):
                    agents.append({"kind": "eps", "eps": eps, "seed": seed, "alpha": -1 if eps == 0.0 else 0.5})
            for ai, agent in enumerate(agents):
                for samplers in (("with_halton", "without_halton") if ai % 2 == 0 else ("with_halton",)):
                    cfg = {"shape": shape, "losses": losses, "agent": agent, "samplers": samplers}
                    full = shape in ([1], [2]) or (not ctx.quick and shape in ([3], [1, 2], [2, 1]) and ai < 2) or (shape == [1, 1] and ai == 0 and (not ctx.quick or losses == "mixed"))
                    if full:
                        cells.append({"cfg": cfg, "mode": "sync", "bound": None, "max_execs": 40000})
                    else:
                        cells.append({"cfg": cfg, "mode": "sync", "bound": 3 if ctx.quick else 4, "max_execs": 40000})
    # Tier B: line granularity, fewer configurations
    tierb_shapes = [[1], [2], [1, 1], [2, 2]] if ctx.quick else [[1], [2], [1, 1], [1, 2], [2, 1], [2, 2], [3], [2, 2, 2], [3, 3]]
    for shape in tierb_shapes:
        for losses in ("improving", "mixed"):
            for agent in ({"kind": "scripted", "script": [1, 0, 1]}, {"kind": "eps", "eps": 0.5, "seed": S, "alpha": 0.5}):
                cfg = {"shape": shape, "losses": losses, "agent": agent, "samplers": "with_halton"}
                cells.append({"cfg": cfg, "mode": "line", "bound": 1 if ctx.quick or sum(shape) > 4 else 2, "max_execs": 30000})
    # second driver: the real Calibrator.calibrate (real samplers, model, loss), one calibrate() call per session
    for shape in ([[2], [1, 2], [2, 2]] if ctx.quick else [[1], [2], [3], [1, 1], [1, 2], [2, 2], [2, 1, 2]]):
        for agent in ({"kind": "scripted", "script": [1, 0, 1]}, {"kind": "eps", "eps": 0.5, "seed": S, "alpha": 0.5}):
            for samplers in ("with_halton", "without_halton"):
                cells.append({"cfg": {"shape": shape, "losses": "real", "agent": agent, "samplers": samplers, "seed": S}, "mode": "sync", "bound": 1 if ctx.quick else 2, "max_execs": 4000, "driver": "calibrator"})
    ctx.bounds = {"shapes": shapes, "second_driver": "real Calibrator.calibrate on [2],[1,2],[2,2] (thorough: 7 shapes), preemption bound " + ("1" if ctx.quick else "2"), "tierA": "all interleavings for shapes [1], [2] (every configuration) and [1,1] (one per loss script; thorough also [3],[1,2],[2,1]), else preemption bound " + ("3" if ctx.quick else "4"),
                  "tierB_shapes": tierb_shapes, "tierB_preemption_bound": "1" if ctx.quick else "2 (1 for > 4 batches)",
                  "agents": "all scripted action sequences over {0,1} (length <= 3 quick / 4 thorough) + eps-greedy eps {0,.5} seeds {S,S+1}",
                  "loss_scripts": list(rh.LOSS_SCRIPTS), "sampler_sets": ["with_halton", "without_halton"], "cells": len(cells)}
    ctx.rule = ("stateless DFS over schedules of the real two-thread exchange; evaluations = complete executions, each checked by the reference monitor; "
                "non-trivial = execution with >= 1 preemption; states = distinct canonical snapshots (reporting only, never used to prune)")
    ctx.assumptions = ["scheduling points: queue ops, thread start/join/exit, _stopped and _curr_best_loss accesses (Tier A); every line in black_it/schedulers (Tier B)",
                       "bytecode-level interleavings inside one source line are not explored"]
    cells.sort(key=lambda c: -(sum(c["cfg"]["shape"]) * (50 if c["mode"] == "line" else 1)))
    try:
        ctx.pmap("vf.checks.c10:explore_cell", cells)
    except rh.HarnessBroken as e:
        raise HarnessError(str(e)) from e
    ctx.require(ctx.nontrivial > 100, "too few executions with a preemption")
    ctx.require(ctx.stats.get("configs_with_2+_schedules", 0) == ctx.stats.get("configs", -1), "some configuration had a single schedule")
    multi = [o for o in ctx.outcomes if o[-1] != 1]
    ctx.extra["configs_with_more_than_one_outcome"] = len(multi)
