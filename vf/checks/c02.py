"""C02 - the recorded history is aligned, truthful and append-only (E2).

Explicit-state exploration of calibrate(n) call sequences on the real Calibrator, with class-level logging of what
the scheduler designated, what each sampler returned, what the model was called with / returned and what the loss
returned. After EVERY transition (also one that raises) eight invariants are evaluated on the state left behind.
"""
from __future__ import annotations

import itertools
import signal

import numpy as np

from vf import models
from vf.core import quiet
from vf.opseq import cal as C

ID = "C02"
TITLE = "The recorded history is aligned, truthful and append-only"


class _Timeout(Exception):
    pass


def _alarm(signum, frame):  # noqa: ARG001
    raise _Timeout("calibrate() did not return within the time limit")


def _eq(a, b):
    return np.array_equal(np.asarray(a), np.asarray(b), equal_nan=True)


def check_history(cal, cfg, rec, model_calls, prev_hist, ret, raised):
    """The eight invariants. Returns [(key, what)]."""
    v = []
    E = cal.ensemble_size
    h = C.history(cal)
    n = cal.n_sampled_params
    lens = {k: len(a) for k, a in h.items()}
    if len(set(lens.values())) != 1 or lens["params_samp"] != n:
        v.append(("inv1-lengths", f"array lengths {lens}, n_sampled_params={n}"))
        return v
    # completed batches: a raising calibrate may have logged a scheduler/sampler call for the batch that failed
    nb = cal.current_batch_index
    outs = [c["out"] for c in rec.sample_calls]
    des = rec.sched_calls
    if len(outs) < nb or len(des) < nb:
        v.append(("inv2-batches-without-sampler-call", f"{nb} batches recorded but {len(outs)} sample() calls / {len(des)} scheduler designations logged"))
        return v
    rows = [len(o) for o in outs[:nb]]
    if sum(rows) != n:
        v.append(("inv2-row-count", f"samplers returned {rows} rows for the {nb} completed batches but {n} rows are recorded"))
        return v
    # (2) every row is the row the designated sampler proposed, in order
    exp_params = np.vstack(outs[:nb]) if nb else np.zeros((0, cal.param_grid.dims))
    if not _eq(h["params_samp"], exp_params):
        i = int(np.argmax(np.any(h["params_samp"] != exp_params, axis=1)))
        v.append(("inv2-params-not-proposed", f"params_samp[{i}] = {h['params_samp'][i].tolist()} but the sampler proposed {exp_params[i].tolist()}"))
    # designated sampler object == the object whose sample() ran
    for k in range(nb):
        if des[k]["obj"] != rec.sample_calls[k]["obj"]:
            v.append(("inv6-designated-not-used", f"batch {k}: scheduler designated a {des[k]['cls']} but sample() ran on a {rec.sample_calls[k]['cls']}"))
            break
    # (3) model calls: call i*E+e of a batch was made with exactly row i, N, and series[i,e] is what it returned
    N = cal.N
    pos = 0
    row0 = 0
    ok3 = True
    parallel = cfg.get("n_jobs", 1) != 1
    if parallel:
        # the model runs in worker processes (no call log): re-run the deterministic, seed-independent model on every stored parameter
        for i in range(n):
            for e in range(E):
                exp = models.ident2(h["params_samp"][i], N, 0)
                if not _eq(h["series_samp"][i, e], exp):
                    v.append(("inv3-series-not-model-output", f"row {i} member {e}: stored series is not what the model returns for the stored parameters {h['params_samp'][i].tolist()} (n_jobs={cfg.get('n_jobs')})"))
                    ok3 = False
                    break
            if not ok3:
                break
    for k in range(nb if not parallel else 0):
        r = rows[k]
        for i in range(r):
            for e in range(E):
                if pos >= len(model_calls):
                    v.append(("inv3-missing-model-call", f"batch {k}: only {len(model_calls)} model calls logged, expected at least {pos + 1}"))
                    ok3 = False
                    break
                th, n_, seed, out = model_calls[pos]
                if not _eq(th, h["params_samp"][row0 + i]):
                    v.append(("inv3-model-called-with-other-params", f"batch {k} row {i} member {e}: model call #{pos} used theta={th.tolist()}, recorded parameters are {h['params_samp'][row0 + i].tolist()}"))
                    ok3 = False
                elif n_ != N:
                    v.append(("inv3-sim-length", f"model called with N={n_}, configured simulation length is {N}"))
                    ok3 = False
                elif not _eq(h["series_samp"][row0 + i, e], out):
                    v.append(("inv3-series-not-model-output", f"batch {k} row {i} member {e}: stored series differs from what model call #{pos} returned"))
                    ok3 = False
                elif not (isinstance(seed, (int, np.integer)) and 0 <= int(seed) < 2**32):
                    v.append(("inv3-seed", f"model seed {seed!r} is not an integer in [0, 2^32)"))
                    ok3 = False
                pos += 1
                if not ok3:
                    break
            if not ok3:
                break
        if not ok3:
            break
        row0 += r
    # (4) losses: equal to what the logged loss call returned, and to a recomputation now (done by the caller outside the recorder)
    done_losses = [c for c in rec.loss_calls if c is not None]
    if len(done_losses) >= n:
        for i in range(n):
            c = done_losses[i]
            if not _eq(c["sim"], h["series_samp"][i]):
                v.append(("inv4-loss-of-other-series", f"row {i}: the loss was computed on a series that is not the stored one"))
                break
            if not _eq(np.float64(c["val"]), h["losses_samp"][i]):
                v.append(("inv4-loss-not-returned-value", f"row {i}: stored loss {h['losses_samp'][i]!r}, loss function returned {c['val']!r}"))
                break
            if not c["sim_after_equal"]:
                v.append(("inv4-loss-modified-series", f"row {i}: compute_loss modified the simulated series it was given"))
                break
    else:
        v.append(("inv4-missing-loss-call", f"{n} rows but only {len(done_losses)} completed loss evaluations"))
    # (5) batch numbers
    exp_b = np.repeat(np.arange(nb), rows) if nb else np.zeros(0, dtype=int)
    if not _eq(h["batch_num_samp"], exp_b):
        v.append(("inv5-batch-labels", f"batch_num_samp = {h['batch_num_samp'].tolist()}, expected {exp_b.tolist()}"))
    # (6) sampler ids
    exp_m = np.concatenate([[cal.samplers_id_table.get(des[k]["cls"], -999)] * rows[k] for k in range(nb)]) if nb else np.zeros(0, dtype=int)
    if not _eq(h["method_samp"], exp_m):
        v.append(("inv6-sampler-labels", f"method_samp = {h['method_samp'].tolist()}, expected {exp_m.tolist()} (designated {[d['cls'] for d in des[:nb]]})"))
    # (7) append-only, and samplers did not touch the arrays they were lent
    for k, c in enumerate(rec.sample_calls):
        if not c["args_intact"]:
            v.append(("inv7-sampler-modified-history", f"sample() call #{k} ({c['cls']}) modified the history arrays it was lent"))
            break
    if prev_hist is not None:
        for name in C.HIST:
            m = len(prev_hist[name])
            if len(h[name]) < m or not _eq(h[name][:m], prev_hist[name]):
                v.append(("inv7-rows-changed", f"{name}: rows recorded earlier changed or disappeared"))
                break
    # (8) return value
    if not raised and ret is not None:
        rp, rl = ret
        if len(rl) != n or len(rp) != n:
            v.append(("inv8-return-length", f"calibrate() returned {len(rl)} pairs for {n} recorded samples"))
        else:
            fin = rl[~np.isnan(rl)]
            if np.any(np.diff(fin) < 0) or (np.isnan(rl).any() and not np.isnan(rl[len(fin):]).all()):
                v.append(("inv8-return-not-sorted", f"returned losses are not in increasing order: {rl.tolist()}"))
            a = sorted(map(repr, zip(map(tuple, rp.tolist()), rl.tolist())))
            b = sorted(map(repr, zip(map(tuple, h["params_samp"].tolist()), h["losses_samp"].tolist())))
            if a != b:
                v.append(("inv8-return-not-history", "the returned (parameter, loss) pairs are not the recorded pairs"))
    return v


def run_seq(cfg, seq):
    """One history: a fresh calibrator and the calls calibrate(n) for n in seq, invariants after each. Returns (violations, stats)."""
    models.reset(logging=True)
    cal = C.build(cfg)
    stats = {"transitions": 0, "raised": 0, "rows": 0, "timeouts": 0}
    viols = []
    prev = None
    rec = C.Recorder()
    old = signal.signal(signal.SIGALRM, _alarm)
    try:
        with rec:
            for n in seq:
                raised, ret = None, None
                signal.alarm(300)
                try:
                    with quiet():
                        ret = cal.calibrate(n)
                except _Timeout as e:
                    raised = e
                    stats["timeouts"] += 1
                except Exception as e:  # noqa: BLE001
                    raised = e
                    stats["raised"] += 1
                finally:
                    signal.alarm(0)
                stats["transitions"] += 1
                vs = check_history(cal, cfg, rec, models.CALLS, prev, ret, raised)
                viols += vs
                prev = C.history(cal)
                if raised is not None or vs:
                    break
    finally:
        signal.signal(signal.SIGALRM, old)
    # (4b) recompute every stored loss now, outside the recorder
    if not viols:
        h = C.history(cal)
        for i in range(len(h["losses_samp"])):
            try:
                with quiet():
                    val = cal.loss_function.compute_loss(h["series_samp"][i], cal.real_data)
            except Exception:  # noqa: BLE001
                continue
            if not _eq(np.float64(val), h["losses_samp"][i]):
                viols.append(("inv4-loss-not-recomputable", f"row {i}: stored loss {h['losses_samp'][i]!r}, recomputed from the stored series {val!r}"))
                break
    stats["rows"] = cal.n_sampled_params
    stats["sig"] = (cal.n_sampled_params, cal.current_batch_index, tuple(c["cls"] for c in rec.sample_calls))
    return viols, stats


def run_cell(cell):
    res = {"evaluations": 0, "nontrivial": 0, "states": 0, "transitions": 0, "traces": 0, "stats": {}, "outcomes": set(), "violations": [], "samples": []}
    cfg = cell["cfg"]
    states = set()
    for seq in cell["seqs"]:
        vs, st = run_seq(cfg, seq)
        res["evaluations"] += 1
        res["traces"] += 1
        res["transitions"] += st["transitions"]
        res["stats"]["calibrate_raised"] = res["stats"].get("calibrate_raised", 0) + st["raised"]
        res["stats"]["timeouts"] = res["stats"].get("timeouts", 0) + st["timeouts"]
        if len(cfg["lineup"]) > 1 or cfg.get("ensemble", 1) > 1:
            res["nontrivial"] += 1
        states.add((tuple(seq), st["sig"]))
        res["outcomes"].add(st["sig"][2][:2])
        for key, what in vs:
            lineup = "+".join(s["cls"] for s in cfg["lineup"])
            if sum(1 for x in res["violations"] if x["key"] == key) < 1:
                res["violations"].append({"key": key, "what": f"[{lineup} model={cfg.get('model')} E={cfg.get('ensemble')} sim_length={cfg.get('sim_length')} calls={seq}] {what}",
                                          "case": {"cfg": cfg, "seq": list(seq)}})
    if cfg.get("n_jobs", 1) != 1:
        from vf.core import shutdown_loky

        shutdown_loky()
    res["states"] = len(states)
    res["samples"] = [{"lineup": [s["cls"] for s in cfg["lineup"]], "model": cfg.get("model"), "ensemble": cfg.get("ensemble"), "calls": cell["seqs"][0]}]
    res["outcomes"] = sorted(res["outcomes"])
    return res


def gate_any(case):
    return case.get("cfg", {}).get("n_jobs", 1) != 1


def replay_case(case):
    vs, _ = run_seq(case["cfg"], case["seq"])
    return [{"key": k, "what": w} for k, w in vs]


def lineups(max_len, bs=(3, 2, 1)):
    out = []
    for first in C.HISTORY_FREE:
        out.append([first])
        if max_len >= 2:
            for second in C.ALL_SAMPLERS:
                out.append([first, second])
                if max_len >= 3:
                    for third in C.ALL_SAMPLERS:
                        out.append([first, second, third])
    return [[{"cls": c, "bs": bs[i % len(bs)]} for i, c in enumerate(lu)] for lu in out]


def compositions(total, parts=(1, 2)):
    """Maximal call sequences: all sequences over `parts` summing to `total` (shorter ones are their prefixes)."""
    out = []

    def rec(cur, left):
        if left == 0:
            out.append(cur)
            return
        for p in parts:
            if p <= left:
                rec(cur + [p], left - p)

    rec([], total)
    return out


def main(ctx):
    S = ctx.seed
    depth = 4 if ctx.quick else 6
    seqs = compositions(depth)
    cells = []
    lus = lineups(2)
    for lu in lus:
        for model in ("gauss2", "ident2", "huge2", "inf2", "const2"):
            cells.append({"cfg": {"lineup": lu, "model": model, "ensemble": 2, "seed": S, "dims": 2, "loss": "minkowski"}, "seqs": seqs})
    sub = [lu for lu in lus if len(lu) == 1 or lu[0]["cls"] == "Halton"] if ctx.quick else lus
    for lu in sub:
        for model in ("gauss2", "ident2"):
            for ens in (1, 3):
                for sl in (None, 6, 11):
                    cells.append({"cfg": {"lineup": lu, "model": model, "ensemble": ens, "sim_length": sl, "seed": S + 1, "dims": 1 if ens == 1 else 2,
                                          "loss": "minkowski" if sl is None else "msm"}, "seqs": [[2, 2], [1, 1, 1, 1]] if ctx.quick else seqs})
    # other losses / filtered loss / RL scheduler
    for lu in ([lus[0], lus[5], lus[9]] if ctx.quick else sub):
        for loss in ("msm", "fourier", "gsl", "likelihood", "minkowski_filtered"):
            cells.append({"cfg": {"lineup": lu, "model": "gauss2", "ensemble": 2, "seed": S, "dims": 2, "loss": loss}, "seqs": [[1, 2, 1]]})
    for lu in (lus[1], lus[4], lus[12]):
        cells.append({"cfg": {"lineup": lu, "model": "gauss2", "ensemble": 2, "seed": S, "dims": 2, "scheduler": {"eps": 0.5, "agent_seed": 1}}, "seqs": [[2, 2], [1, 1, 2]]})
    # non-finite and overflowing simulations under losses that do not reject them (the recorded loss must be what the loss returned)
    for lu in ([lus[0], lus[13], lus[9]] if ctx.quick else sub):
        for model in ("inf2", "nan2", "huge2"):
            for loss in ("fourier", "msm", "likelihood"):
                cells.append({"cfg": {"lineup": lu, "model": model, "ensemble": 2, "seed": S, "dims": 2, "loss": loss}, "seqs": [[2, 1, 1]]})
    # losses far BELOW zero (a negated score): beyond float32 on the negative side only - recorded rows must stay what the loss returned
    for second in C.ALL_SAMPLERS:
        lu = [{"cls": "Halton", "bs": 3}, {"cls": second, "bs": 2}]
        for model in ("huge2", "gauss2"):
            cells.append({"cfg": {"lineup": lu, "model": model, "ensemble": 2, "seed": S, "dims": 2, "loss": "neg_minkowski"}, "seqs": [[1, 1, 1, 1], [2, 2]]})
    # a search space that is not the unit box, particle swarm attracted by the global minimum across samplers
    for first in ("Halton", "RandomUniform"):
        for opts in ({"global_minimum_across_samplers": True}, {}):
            lu = [{"cls": first, "bs": 3}, {"cls": "ParticleSwarm", "bs": 2, "opts": opts}, {"cls": "BestBatch", "bs": 2}]
            cells.append({"cfg": {"lineup": lu, "model": "ident2", "ensemble": 1, "seed": S, "dims": 2, "loss": "minkowski", "lower": -3.3, "upper": 7.1, "precision": 0.7}, "seqs": [[3, 3, 2], [1] * 8]})
    # a model that modifies the parameter vector it is handed (in place): the recorded row must stay what the sampler proposed
    for lu in (lus[0], lus[13], lus[22]):
        for ens in (1, 3):
            cells.append({"cfg": {"lineup": lu, "model": "mutating2", "ensemble": ens, "seed": S, "dims": 2, "loss": "minkowski"}, "seqs": [[2, 1]]})
    # user-defined components that reuse what they own: a sampler that keeps (and later moves in place) the array it returned, a
    # scheduler whose update() hook post-processes its arguments in place - the recorded history must not be reachable through either
    for lu in ([{"cls": "Walkers", "bs": 3}], [{"cls": "Walkers", "bs": 2}, {"cls": "Halton", "bs": 2}], [{"cls": "Halton", "bs": 2}, {"cls": "Walkers", "bs": 3}]):
        for model in ("ident2", "gauss2"):
            cells.append({"cfg": {"lineup": lu, "model": model, "ensemble": 2, "seed": S, "dims": 2, "loss": "minkowski"}, "seqs": [[1, 1, 1, 1], [2, 2], [4]]})
    for lu in (lus[0], lus[13], lus[5]):
        for model in ("ident2", "gauss2"):
            cells.append({"cfg": {"lineup": lu, "model": model, "ensemble": 2, "seed": S, "dims": 2, "loss": "minkowski", "scheduler": "rr_inplace"}, "seqs": [[1, 1, 2], [3, 1]]})
    # larger-scope probes: ensemble 5, batch sizes 7 and 5, four samplers, ten batches
    big = [{"cls": c, "bs": b} for c, b in zip(("Halton", "BestBatch", "RandomUniform", "ParticleSwarm"), (7, 5, 4, 3))]
    cells.append({"cfg": {"lineup": big, "model": "ident2", "ensemble": 5, "seed": S, "dims": 3, "loss": "minkowski"}, "seqs": [[4, 3, 3], [10]]})
    cells.append({"cfg": {"lineup": big, "model": "gauss2", "ensemble": 4, "seed": S + 1, "dims": 2, "loss": "msm", "sim_length": 40, "T": 40}, "seqs": [[5, 5]]})
    # n_jobs > 1 with the real loky back-end and a model whose run time depends on the parameter (completion order != submission order)
    for lu in (lus[0], lus[13]) if ctx.quick else (lus[0], lus[13], lus[22], lus[31]):
        for nj in (2, 4):
            cells.append({"cfg": {"lineup": [dict(s, bs=3) for s in lu], "model": "slow_ident2", "ensemble": 2, "seed": S, "dims": 2, "n_jobs": nj}, "seqs": [[2, 1]]})
    ctx.bounds = {"lineups": len(lus), "models": ["gauss2", "ident2", "huge2", "inf2", "const2"], "ensemble": [1, 2, 3], "sim_length": [None, 6, 11], "T": 8,
                  "call_sequences": f"all sequences over calibrate(1|2) with {depth} batches in total (prefixes included)", "cells": len(cells)}
    ctx.rule = ("every configuration x every maximal call sequence; invariants evaluated after every calibrate() call (also raising ones); "
                "non-trivial = more than one sampler or ensemble > 1")
    ctx.assumptions = ["n_jobs=1 so that model call order is owned (plus a few n_jobs=2/4 cells judged by re-running a deterministic model); logging patches are transparent", "seed values are only required to be integers in [0, 2^32)"]
    cells.sort(key=lambda c: -len(c["seqs"]) * (3 if any(s["cls"] in ("CORS", "GaussianProcess") for s in c["cfg"]["lineup"]) else 1))
    ctx.pmap("vf.checks.c02:run_cell", cells, chunksize=2)
    ctx.require(ctx.stats.get("timeouts", 0) == 0, "a calibrate() call hit the harness time limit")
    ctx.require(ctx.evaluations > 500, "too few histories")
