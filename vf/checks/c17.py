"""C17 - grid snapping maps every value to a nearest grid element (E4: bounded-exhaustive inputs).

Alphabet : grids = every non-empty strictly increasing subset of a base set x scale x offset, plus
           uniform grids lower+k*step; values placed *relative to the grid*: every element, every
           mid-point and quarter point of adjacent elements, nextafter neighbours of all of those,
           far/near out-of-range values.
Oracle   : result is an element of the grid; |result-v| == min_g |g-v| in float arithmetic (either
           neighbour accepted on an exact tie); idempotent; the vectorised call equals the scalar
           calls; digitize_data on (n,d) arrays equals the per-column scalar result.
"""
from __future__ import annotations

import itertools

import numpy as np

ID = "C17"
TITLE = "Grid snapping maps every value to a nearest grid element"


def _values_for(grid: np.ndarray) -> np.ndarray:
    vals = list(grid)
    for a, b in zip(grid[:-1], grid[1:]):
        mid = a + (b - a) / 2.0
        vals += [mid, a + (b - a) / 4.0, a + 3 * (b - a) / 4.0, (a + b) / 2.0]
    base = list(vals)
    for v in base:
        vals += [np.nextafter(v, -np.inf), np.nextafter(v, np.inf)]
    lo, hi = grid[0], grid[-1]
    span = max(abs(lo), abs(hi), 1.0)
    vals += [lo - 1e-12 * span, lo - 1.0, lo - 1e9, hi + 1e-12 * span, hi + 1.0, hi + 1e9, lo - 0.5 * span, hi + 0.5 * span]
    return np.unique(np.array(vals, dtype=float))


def _judge(grid: np.ndarray, v: float, r: float) -> str | None:
    """Return a violation key or None."""
    if not np.any(grid == r):
        return "not-a-grid-element"
    dmin = np.min(np.fabs(grid - v))
    if not (np.fabs(r - v) == dmin):
        return "not-nearest"
    return None


def _classify(grid: np.ndarray, v: float, r: float) -> str:
    if v < grid[0]:
        return "below"
    if v > grid[-1]:
        return "above"
    if np.any(grid == v):
        return "exact"
    i = int(np.searchsorted(grid, v))
    lo, hi = grid[i - 1], grid[i]
    tie = np.fabs(v - lo) == np.fabs(hi - v)
    return ("tie-" if tie else "") + ("lower" if r == lo else "upper")


def check_grid(grid_list, mode="all"):
    """Evaluate one grid completely; returns the common result dict."""
    from black_it.utils.base import digitize_data, get_closest

    grid = np.array(grid_list, dtype=float)
    vals = _values_for(grid)
    res = {"evaluations": 0, "nontrivial": 0, "states": 0, "transitions": 0, "traces": 0, "stats": {}, "outcomes": set(), "violations": [], "samples": []}

    def viol(key, what, case):
        res["violations"].append({"key": key, "what": what, "case": case})

    vec = get_closest(grid, vals.copy())
    res["transitions"] += 1
    for v, r in zip(vals, vec):
        res["evaluations"] += 1
        k = _judge(grid, v, r)
        cls = _classify(grid, v, r)
        res["outcomes"].add(cls)
        if cls != "exact":
            res["nontrivial"] += 1
        if k:
            viol(k, f"get_closest(grid,{v!r}) = {r!r} on grid of {len(grid)} elements [{grid[0]!r}..{grid[-1]!r}] ({cls})",
                 {"grid": grid.tolist(), "value": float(v), "mode": "vector-of-all-values"})
        # scalar call must agree with the vectorised one
        rs = get_closest(grid, np.array([v]))[0]
        res["transitions"] += 1
        if not (rs == r):
            viol("vector-differs-from-scalar", f"value {v!r}: vector call {r!r}, scalar call {rs!r}", {"grid": grid.tolist(), "value": float(v), "mode": "scalar-vs-vector"})
        # idempotence
        r2 = get_closest(grid, np.array([r]))[0]
        if not (r2 == r):
            viol("not-idempotent", f"snap(snap({v!r})) = {r2!r} != {r!r}", {"grid": grid.tolist(), "value": float(v), "mode": "idempotence"})
    res["states"] = len(vals)
    res["traces"] = len(vals)
    res["samples"] = [{"grid": grid.tolist()[:8], "value": float(vals[len(vals) // 2]), "result": float(vec[len(vals) // 2])}]
    res["outcomes"] = sorted(res["outcomes"])
    return res


def check_columns(spec):
    """digitize_data on an (n,d) array with a different grid per column equals the scalar result."""
    from black_it.utils.base import digitize_data, get_closest

    grids = [np.array(g, dtype=float) for g in spec["grids"]]
    cols = [_values_for(g) for g in grids]
    n = min(len(c) for c in cols)
    # rotate each column differently so rows pair unrelated positions
    data = np.stack([np.roll(c[:n], 3 * j) for j, c in enumerate(cols)], axis=1)
    before = data.copy()
    out = digitize_data(data, grids)
    res = {"evaluations": 0, "nontrivial": 0, "states": 0, "transitions": 1, "traces": 0, "stats": {"array_calls": 1}, "outcomes": [], "violations": [], "samples": []}
    if out.shape != data.shape:
        res["violations"].append({"key": "array-shape", "what": f"digitize_data returned shape {out.shape} for input {data.shape}", "case": {"grids": spec["grids"], "mode": "columns"}})
        return res
    if not np.array_equal(before, data):
        res["violations"].append({"key": "input-modified", "what": "digitize_data modified its input array", "case": {"grids": spec["grids"], "mode": "columns"}})
    for c, g in enumerate(grids):
        for i in range(n):
            res["evaluations"] += 1
            res["nontrivial"] += 1
            expect = get_closest(g, np.array([data[i, c]]))[0]
            k = _judge(g, data[i, c], out[i, c])
            if k or not (expect == out[i, c]):
                res["violations"].append({"key": "array-" + (k or "differs-from-scalar"),
                                          "what": f"digitize_data[{i},{c}] = {out[i, c]!r} for value {data[i, c]!r}, scalar gives {expect!r}",
                                          "case": {"grids": spec["grids"], "mode": "columns"}})
    # inputs that are not float64 (integer counts, float32): the result is still the nearest element of the float64 grid
    for dt in (np.float32, np.int64):
        d2 = before.astype(dt)
        if not np.all(np.isfinite(d2.astype(float))) or np.any(np.abs(before) > 1e15):
            continue
        out2 = np.asarray(digitize_data(d2.copy(), grids))
        for c, g in enumerate(grids):
            for i in range(0, n, 3):
                res["evaluations"] += 1
                v = float(d2[i, c])
                k = _judge(g, v, float(out2[i, c])) if out2.shape == d2.shape else "shape"
                if k:
                    res["violations"].append({"key": f"array-{k}:{np.dtype(dt).name}-input", "what": f"digitize_data on {np.dtype(dt).name} data: value {v!r} -> {out2[i, c] if out2.shape == d2.shape else out2.shape!r}, which is not the nearest element of the grid",
                                              "case": {"grids": spec["grids"], "mode": "columns"}})
                    break
    res["states"] = res["evaluations"]
    res["traces"] = res["evaluations"]
    return res


def _grids(tier: str, seed: int):
    base = [0, 1, 2, 4, 7, 11] if tier == "quick" else [0, 1, 2, 4, 7, 11, 16, 22, 29, 37, 46]
    scales = [1.0, 0.1, 1e-3, 1e6]
    offsets = [0.0, -5.0]
    # VERIF_SEED only rotates which representative offset is used; the subset lattice is complete
    offsets = [o + seed for o in offsets]
    out = []
    for r in range(1, len(base) + 1):
        for sub in itertools.combinations(base, r):
            for s in scales:
                for o in offsets:
                    out.append([(x + o) * s for x in sub])
    ns = [1, 2, 3, 5, 10, 50, 200] if tier == "quick" else [1, 2, 3, 4, 5, 7, 10, 20, 50, 100, 150, 200]
    steps = [0.01, 0.3, 1.0 / 3.0] if tier == "quick" else [0.01, 0.3, 1.0 / 3.0, 0.07, 1e-5, 12.5]
    for n in ns:
        for st in steps:
            for lo in (0.0, -3.3 + seed, 1000.0):
                out.append(list(lo + np.arange(n) * st))
    # grids exactly as SearchSpace builds them
    for lo, hi, st in [(0, 1, 0.01), (0, 1, 0.3), (-1, 1, 0.1), (0, 0.95, 0.1), (-3.3, 7.1, 0.7), (1000, 1001, 0.25), (5, 6, 1 / 3)]:
        out.append(list(np.arange(lo, hi + 1e-7, st)))
    # strictly increasing only, dedupe
    seen, uniq = set(), []
    for g in out:
        t = tuple(g)
        if t in seen or any(b <= a for a, b in zip(g[:-1], g[1:])):
            continue
        seen.add(t)
        uniq.append(g)
    return uniq


def run_cell(cell):
    meta = None
    if isinstance(cell, dict):
        meta = {k: cell[k] for k in ("cell", "nchunks", "tier", "seed")}
        cell = cell["items"]
    agg = {"evaluations": 0, "nontrivial": 0, "states": 0, "transitions": 0, "traces": 0, "stats": {"grids": 0}, "outcomes": set(), "violations": [], "samples": []}
    for item in cell:
        r = check_columns(item) if isinstance(item, dict) else check_grid(item)
        for k in ("evaluations", "nontrivial", "states", "transitions", "traces"):
            agg[k] += r[k]
        agg["stats"]["grids"] += 1
        agg["outcomes"].update(r["outcomes"])
        for v_ in r["violations"][:3]:
            if meta:
                v_["case"] = dict(v_["case"], **meta)
            agg["violations"].append(v_)
        if len(agg["samples"]) < 2:
            agg["samples"] += r["samples"]
    agg["outcomes"] = sorted(agg["outcomes"])
    return agg


def gate_any(case):  # noqa: ARG001
    # the oracle judges single calls (input -> output); a wrong answer that depends on hidden state of the implementation
    # (e.g. a cache keyed on object identity) need not show on every replay: once in three replays is accepted
    return True


def replay_case(case):
    if case.get("mode") == "columns":
        r = check_columns({"grids": case["grids"]})
    else:
        r = check_grid(case["grid"])
    vs = [{"key": v["key"], "what": v["what"]} for v in r["violations"]]
    if not vs and "cell" in case:
        # re-run the whole cell the case came from (same sequence of grids in one process)
        items = _items(case["tier"], case["seed"])
        r = run_cell(items[case["cell"]::case["nchunks"]])
        vs = [{"key": v["key"], "what": v["what"]} for v in r["violations"]]
    return vs


def _items(tier, seed):
    quick = tier == "quick"
    grids = _grids(tier, seed)
    col_specs = []
    for d in (1, 2, 3):
        for i in range(0, min(len(grids), 60 if quick else 400) - d, 7):
            col_specs.append({"grids": [grids[(i + 11 * j) % len(grids)] for j in range(d)]})
    for g in grids[:: max(1, len(grids) // (40 if quick else 200))]:
        if len(g) < 2:
            continue
        ga = [x for x in g]
        col_specs.append({"grids": [ga, [x * (1 + 1e-6) + 1e-7 for x in ga]]})
        col_specs.append({"grids": [[x * 1e-9 for x in ga], [x * 2e-9 for x in ga], [x * 1e-9 + 1e-10 for x in ga]]})
        col_specs.append({"grids": [ga, ga, [x + (ga[1] - ga[0]) * 0.25 for x in ga]]})
    return grids + col_specs


def main(ctx):
    items = _items(ctx.tier, ctx.seed)
    grids = [x for x in items if not isinstance(x, dict)]
    col_specs = [x for x in items if isinstance(x, dict)]
    nchunks = 16 if ctx.quick else 64
    cells = [{"items": items[i::nchunks], "cell": i, "nchunks": nchunks, "tier": ctx.tier, "seed": ctx.seed} for i in range(nchunks)]
    ctx.bounds = {"grids": len(grids), "column_specs": len(col_specs), "max_grid_len": max(len(g) for g in grids), "input_dtypes": ["float64", "float32", "int64"]}
    ctx.rule = ("all non-empty subsets of a base set x 4 scales x 2 offsets + uniform grids; per grid every element, mid/quarter point, "
                "their nextafter neighbours and 8 out-of-range values; non-trivial = value is not itself a grid element")
    ctx.assumptions = ["numpy float64 arithmetic; grids strictly increasing (as SearchSpace builds them)"]
    ctx.pmap("vf.checks.c17:run_cell", cells)
    ctx.require(ctx.evaluations > 10000, "too few evaluations")
    ctx.require({"below", "above", "exact", "lower", "upper"} <= ctx.outcomes, f"outcome classes not all reached: {ctx.outcomes}")
    ctx.require(any(str(o).startswith("tie-") for o in ctx.outcomes), "no exact half-way case reached")
