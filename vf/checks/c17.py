"""C17 - grid snapping maps every value to a nearest grid element (E4: bounded-exhaustive inputs).

Alphabet : grids = every non-empty strictly increasing subset of a base set x scale x offset, plus
           uniform grids lower+k*step; values placed *relative to the grid*: every element, every
           mid-point and quarter point of adjacent elements, nextafter neighbours of all of those,
           far/near out-of-range values.
Oracle   : result is an element of the grid; |result-v| == min_g |g-v| in float arithmetic (either
           neighbour accepted on an exact tie); idempotent; the vectorised call equals the scalar
           calls; digitize_data on (n,d) arrays equals the per-column scalar result.
"""
from __future__ import annotations

import itertools

import numpy as np

ID = "C17"
TITLE = "Grid snapping maps every value to a nearest grid element"


def _values_for(grid: np.ndarray) -> np.ndarray:
    vals = list(grid)
    for a, b in zip(grid[:-1], grid[1:]):
        mid = a + (b - a) / 2.0
        vals += [mid, a + (b - a) / 4.0, a + 3 * (b - a) / 4.0, (a + b) / 2.0]
    base = list(vals)
    for v in base:
        vals += [np.nextafter(v, -np.inf), np.nextafter(v, np.inf)]
    lo, hi = grid[0], grid[-1]
    span = max(abs(lo), abs(hi), 1.0)
    vals += [lo - 1e-12 * span, lo - 1.0, lo - 1e9, hi + 1e-12 * span, hi + 1.0, hi + 1e9, lo - 0.5 * span, hi + 0.5 * span]
    return np.unique(np.array(vals, dtype=float))


def _judge(grid: np.ndarray, v: float, r: float) -> str | None:
    """Return a violation key or None."""
    if not np.any(grid == r):
        return "not-a-grid-element"
    dmin = np.min(np.fabs(grid - v))
    if not (np.fabs(r - v) == dmin):
        return "not-nearest"
    return None


def _classify(grid: np.ndarray, v: float, r: float) -> str:
    if v < grid[0]:
        return "below"
    if v > grid[-1]:
        return "above"
    if np.any(grid == v):
        return "exact"
    i = int(np.searchsorted(grid, v))
    lo, hi = grid[i - 1], grid[i]
    tie = np.fabs(v - lo) == np.fabs(hi - v)
    return ("tie-" if tie else "") + ("lower" if r == lo else "upper")


def check_grid(grid_list, mode="all"):
    """Evaluate one grid completely; returns the common result dict."""
    from black_it.utils.base import digitize_data, get_closest

    grid = np.array(grid_list, dtype=float)
    vals = _values_for(grid)
    res = {"evaluations": 0, "nontrivial": 0, "states": 0, "transitions": 0, "traces": 0, "stats": {}, "outcomes": set(), "violations": [], "samples": []}

    def viol(key, what, case):
        res["violations"].append({"key": key, "what": what, "case": case})

    vec = get_closest(grid, vals.copy())
    res["transitions"] += 1
    for v, r in zip(vals, vec):
        res["evaluations"] += 1
        k = _judge(grid, v, r)
        cls = _classify(grid, v, r)
        res["outcomes"].add(cls)
        if cls != "exact":
            res["nontrivial"] += 1
        if k:
            viol(k, f"get_closest(grid,{v!r}) = {r!r} on grid of {len(grid)} elements [{grid[0]!r}..{grid[-1]!r}] ({cls})",
                 {"grid": grid.tolist(), "value": float(v), "mode": "vector-of-all-values"})
        # scalar call must agree with the vectorised one
        rs = get_closest(grid, np.array([v]))[0]
        res["transitions"] += 1
        if not (rs == r):
            viol("vector-differs-from-scalar", f"value {v!r}: vector call {r!r}, scalar call {rs!r}", {"grid": grid.tolist(), "value": float(v), "mode": "scalar-vs-vector"})
        # idempotence
        r2 = get_closest(grid, np.array([r]))[0]
        if not (r2 == r):
            viol("not-idempotent", f"snap(snap({v!r})) = {r2!r} != {r!r}", {"grid": grid.tolist(), "value": float(v), "mode": "idempotence"})
    res["states"] = len(vals)
    res["traces"] = len(vals)
    res["samples"] = [{"grid": grid.tolist()[:8], "value": float(vals[len(vals) // 2]), "result": float(vec[len(vals) // 2])}]
    res["outcomes"] = sorted(res["outcomes"])
    return res


def check_columns(spec):
    """digitize_data on an (n,d) array with a different grid per column equals the scalar result."""
    from black_it.utils.base import digitize_data, get_closest

    grids = [np.array(g, dtype=float) for g in spec["grids"]]
    cols = [_values_for(g) for g in grids]
    n = min(len(c) for c in cols)
    # rotate each column differently so rows pair unrelated positions
    data = np.stack([np.roll(c[:n], 3 * j) for j, c in enumerate(cols)], axis=1)
    before = data.copy()
    out = digitize_data(data, grids)
    res = {"evaluations": 0, "nontrivial": 0, "states": 0, "transitions": 1, "traces": 0, "stats": {"array_calls": 1}, "outcomes": [], "violations": [], "samples": []}
    if out.shape != data.shape:
        res["violations"].append({"key": "array-shape", "what": f"digitize_data returned shape {out.shape} for input {data.shape}", "case": {"grids": spec["grids"], "mode": "columns"}})
        return res
    if not np.array_equal(before, data):
        res["violations"].append({"key": "input-modified", "what": "digitize_data modified its input array", "case": {"grids": spec["grids"], "mode": "columns"}})
    for c, g in enumerate(grids):
        for i in range(n):
            res["evaluations"] += 1
            res["nontrivial"] += 1
            expect = get_closest(g, np.array([data[i, c]]))[0]
            k = _judge(g, data[i, c], out[i, c])
            if k or not (expect == out[i, c]):
                res["violations"].append({"key": "array-" + (k or "differs-from-scalar"),
                                          "what": f"digitize_data[{i},{c}] = {out[i, c]!r} for value {data[i, c]!r}, scalar gives {expect!r}",
                                          "case": {"grids": spec["grids"], "mode": "columns"}})
    # inputs that are not float64 (integer counts, float32): the result is still the nearest element of the float64 grid
    for dt in (np.float32, np.int64):
        d2 = before.astype(dt)
        if not np.all(np.isfinite(d2.astype(float))) or np.any(np.abs(before) > 1e15):
            continue
        out2 = np.asarray(digitize_data(d2.copy(), grids))
        for c, g in enumerate(grids):
            for i in range(0, n, 3):
                res["evaluations"] += 1
                v = float(d2[i, c])
                k = _judge(g, v, float(out2[i, c])) if out2.shape == d2.shape else "shape"
                if k:
                    res["violations"].append({"key": f"array-{k}:{np.dtype(dt).name}-input", "what": f"digitize_data on {np.dtype(dt).name} data: value {v!r} -> {out2[i, c] if out2.shape == d2.shape else out2.shape!r}, which is not the nearest element of the grid",
                                              "case": {"grids": spec["grids"], "mode": "columns"}})
                    break
    res["states"] = res["evaluations"]
    res["traces"] = res["evaluations"]
    return res


def _grids(tier: str, seed: int):
    base = [0, 1, 2, 4, 7, 11] if tier == "quick" else [0, 1, 2, 4, 7, 11, 16, 22, 29, 37, 46]
    scales = [1.0, 0.1, 1e-3, 1e6]
    offsets = [0.0, -5.0]
    # VERIF_SEED only rotates which representative offset is used; the subset lattice is complete
    offsets = [o + seed for o in offsets]
    out = []
    for r in range(1, len(base) + 1):
        for sub in itertools.combinations(base, r):
            for s in scales:
                for o in offsets:
                    out.append([(x + o) * s for x in sub])
    ns = [1, 2, 3, 5, 10, 50, 200] if tier == "quick" else [1, 2, 3, 4, 5, 7, 10, 20, 50, 100, 150, 200]
    steps = [0.01, 0.3, 1.0 / 3.0] if tier == "quick" else [0.01, 0.3, 1.0 / 3.0, 0.07, 1e-5, 12.5]
    for n in ns:
        for st in steps:
            for lo in (0.0, -3.3 + seed, 1000.0):
                out.append(list(lo + np.arange(n) * st))
    # grids exactly as SearchSpace builds them
    for lo, hi, st in [(0, 1, 0.01), (0, 1, 0.3), (-1, 1, 0.1), (0, 0.95, 0.1), (-3.3, 7.1, 0.7), (1000, 1001, 0.25), (5, 6, 1 / 3)]:
        out.append(list(np.arange(lo, hi + 1e-7, st)))
    # strictly increasing only, dedupe
    seen, uniq = set(), []
    for g in out:
        t = tuple(g)
        if t in seen or any(b <= a for a, b in zip(g[:-1], g[1:])):
            continue
        seen.add(t)
        uniq.append(g)
    return uniq


def check_layout(spec):
    """(a) get_closest on 2-d arrays in every memory layout (C order, Fortran order, transposed and strided views) is the element-wise
    scalar result; (b) digitize_data on batches whose rows follow a PERIODIC pattern (rows at a regular pitch already on the grid,
    the rows between them off the grid) snaps every entry - a probe that looks at every k-th row must not speak for the others."""
    from black_it.utils.base import digitize_data, get_closest

    res = {"evaluations": 0, "nontrivial": 0, "states": 0, "transitions": 0, "traces": 0, "stats": {"layout_calls": 0}, "outcomes": [], "violations": [], "samples": []}
    g = np.array(spec["grid"], dtype=float)
    step = float(np.min(np.diff(g))) if len(g) > 1 else 1.0
    case = {"grid": spec["grid"], "mode": "layout", "rows": spec["rows"], "pitch": spec["pitch"]}

    def viol(key, what):
        if sum(1 for x in res["violations"] if x["key"] == key) < 1:
            res["violations"].append({"key": key, "what": what, "case": case})

    n, pitch = spec["rows"], spec["pitch"]
    idx = np.arange(n)
    on = g[(idx * 7) % len(g)]
    off = on + step * (0.25 + 0.5 * ((idx * 3) % 2))            # a quarter / three quarters of a step above an element
    col = np.where(idx % pitch == 0, on, off)
    data = np.stack([col, np.roll(col, 1), np.where((idx + 1) % pitch == 0, on, off)], axis=1)
    want = np.array([[get_closest(g, np.array([v]))[0] for v in row] for row in data])
    # (b) periodic batches through digitize_data: columns out of phase, and all columns in phase (whole rows on the grid)
    on2 = g[(idx * 5 + 1) % len(g)]
    inphase = np.stack([col, np.where(idx % pitch == 0, on2, on2 - step * 0.25), np.where(idx % pitch == 0, on, off)], axis=1)
    for tag, dat in (("out of phase", data), ("whole rows", inphase)):
        w = want if dat is data else np.array([[get_closest(g, np.array([v]))[0] for v in row] for row in dat])
        out = np.asarray(digitize_data(dat.copy(), [g, g, g]))
        res["stats"]["layout_calls"] += 1
        res["evaluations"] += dat.size
        res["nontrivial"] += dat.size
        if out.shape != dat.shape or not np.array_equal(out, w):
            bad = int(np.sum(out != w)) if out.shape == dat.shape else -1
            viol("array-differs-from-scalar:periodic-rows", f"digitize_data on {n} rows with every {pitch}-th row on the grid ({tag}): {bad} of {dat.size} entries differ from the element-wise result")
    # (a) 2-d input to get_closest in four layouts
    small = data[: min(n, 24)]
    for name, arr in (("C", np.ascontiguousarray(small)), ("F", np.asfortranarray(small)), ("transposed", np.ascontiguousarray(small.T).T), ("T", small.T.copy().T if False else small.T),
                      ("strided", np.repeat(small, 2, axis=0)[::2, ::-1])):
        exp = np.array([[get_closest(g, np.array([v]))[0] for v in row] for row in np.asarray(arr)])
        try:
            got = np.asarray(get_closest(g, arr))
        except Exception as e:  # noqa: BLE001
            viol("get-closest-2d-raises:" + name, f"get_closest on a 2-d array in {name} layout raised {type(e).__name__}: {e}")
            continue
        res["stats"]["layout_calls"] += 1
        res["evaluations"] += exp.size
        if got.shape != exp.shape or not np.array_equal(got, exp):
            viol("get-closest-2d-misplaced:" + name, f"get_closest on a 2-d array in {name} layout (shape {np.asarray(arr).shape}) is not the element-wise result: e.g. got {got.ravel()[:4].tolist()}, expected {exp.ravel()[:4].tolist()}")
    res["states"] = res["traces"] = res["evaluations"]
    return res


def run_cell(cell):
    meta = None
    if isinstance(cell, dict):
        meta = {k: cell[k] for k in ("cell", "nchunks", "tier", "seed")}
        cell = cell["items"]
    agg = {"evaluations": 0, "nontrivial": 0, "states": 0, "transitions": 0, "traces": 0, "stats": {"grids": 0}, "outcomes": set(), "violations": [], "samples": []}
    for item in cell:
        r = check_layout(item) if isinstance(item, dict) and item.get("kind") == "layout" else check_columns(item) if isinstance(item, dict) else check_grid(item)
        for k in ("evaluations", "nontrivial", "states", "transitions", "traces"):
            agg[k] += r[k]
        agg["stats"]["grids"] += 1
        agg["outcomes"].update(r["outcomes"])
        for v_ in r["violations"][:3]:
            if meta:
                v_["case"] = dict(v_["case"], **meta)
            agg["violations"].append(v_)
        if len(agg["samples"]) < 2:
            agg["samples"] += r["samples"]
    agg["outcomes"] = sorted(agg["outcomes"])
    return agg


def gate_any(case):  # noqa: ARG001
    # the oracle judges single calls (input -> output); a wrong answer that depends on hidden state of the implementation
    # (e.g. a cache keyed on object identity) need not show on every replay: once in three replays is accepted
    return True


def replay_case(case):
    if case.get("mode") == "layout":
        r = check_layout({"grid": case["grid"], "rows": case["rows"], "pitch": case["pitch"]})
    elif case.get("mode") == "columns":
        r = check_columns({"grids": case["grids"]})
    else:
        r = check_grid(case["grid"])
    vs = [{"key": v["key"], "what": v["what"]} for v in r["violations"]]
    if not vs and "cell" in case:
        # re-run the whole cell the case came from (same sequence of grids in one process)
        items = _items(case["tier"], case["seed"])
        r = run_cell(items[case["cell"]::case["nchunks"]])
        vs = [{"key": v["key"], "what": v["what"]} for v in r["violations"]]
    return vs


def _items(tier, seed):
    quick = tier == "quick"
    grids = _grids(tier, seed)
    col_specs = []
    for d in (1, 2, 3):
        for i in range(0, min(len(grids), 60 if quick else 400) - d, 7):
            col_specs.append({"grids": [grids[(i + 11 * j) % len(grids)] for j in range(d)]})
    for g in grids[:: max(1, len(grids) // (40 if quick else 200))]:
        if len(g) < 2:
            continue
        ga = [x for x in g]
        col_specs.append({"grids": [ga, [x * (1 + 1e-6) + 1e-7 for x in ga]]})
        col_specs.append({"grids": [[x * 1e-9 for x in ga], [x * 2e-9 for x in ga], [x * 1e-9 + 1e-10 for x in ga]]})
        col_specs.append({"grids": [ga, ga, [x + (ga[1] - ga[0]) * 0.25 for x in ga]]})
    lay = []
    for gi, g in enumerate([[0.0, 0.1, 0.2, 0.30000000000000004, 0.4, 0.5], [x * 0.03 for x in range(34)], [-3.3 + 0.7 * k for k in range(15)], [1000.0 + 0.25 * k for k in range(5)]]):
        for rows in ((12, 95, 96, 97, 144, 480, 1000) if quick else (12, 48, 95, 96, 97, 100, 144, 192, 480, 960, 1000, 4800)):
            for pitch in sorted({1, 2, 3, 5, 10, max(1, rows // 48), max(1, rows // 24), max(1, rows // 96), max(1, rows // 100), max(1, rows // 10)}):
                if (gi + rows + pitch) % (2 if quick else 1) == 0:
                    lay.append({"kind": "layout", "grid": g, "rows": rows, "pitch": pitch})
    return grids + col_specs + lay


def main(ctx):
    items = _items(ctx.tier, ctx.seed)
    grids = [x for x in items if not isinstance(x, dict)]
    col_specs = [x for x in items if isinstance(x, dict) and x.get("kind") != "layout"]
    nchunks = 16 if ctx.quick else 64
    cells = [{"items": items[i::nchunks], "cell": i, "nchunks": nchunks, "tier": ctx.tier, "seed": ctx.seed} for i in range(nchunks)]
    ctx.bounds = {"layouts_and_periodic_batches": sum(1 for x in items if isinstance(x, dict) and x.get("kind") == "layout"), "grids": len(grids), "column_specs": len(col_specs), "max_grid_len": max(len(g) for g in grids), "input_dtypes": ["float64", "float32", "int64"]}
    ctx.rule = ("all non-empty subsets of a base set x 4 scales x 2 offsets + uniform grids; per grid every element, mid/quarter point, "
                "their nextafter neighbours and 8 out-of-range values; non-trivial = value is not itself a grid element")
    ctx.assumptions = ["numpy float64 arithmetic; grids strictly increasing (as SearchSpace builds them)"]
    ctx.pmap("vf.checks.c17:run_cell", cells)
    ctx.require(ctx.evaluations > 10000, "too few evaluations")
    ctx.require({"below", "above", "exact", "lower", "upper"} <= ctx.outcomes, f"outcome classes not all reached: {ctx.outcomes}")
    ctx.require(any(str(o).startswith("tie-") for o in ctx.outcomes), "no exact half-way case reached")
