"""C03 - every proposed parameter vector belongs to the declared search space (E4 with short call sequences).

Search-space lattice (bounds of any sign/scale, precisions that do or do not divide the range; 1-3 parameters quick, up to 6
thorough) x all nine samplers with option variants x on-grid histories (sizes B, B+1, 3B; distinct / tied / all-equal / one
huge loss) x seeds, THREE successive sample() calls on the same object with the history extended by each returned batch.
Some sequences then continue with two calls on a SECOND space of the same dimension (state carried between two uses of one
object), and some histories are on-grid INTEGER-typed arrays. Oracle: shape (batch_size, dims); every coordinate is an exact element of that parameter's grid and lies within the declared
bounds up to the 1e-7 end-point tolerance (checked against the declared bounds, not only against the grid object).
"""
from __future__ import annotations

import signal

import numpy as np

from vf import lattice as L
from vf.core import quiet

ID = "C03"
TITLE = "Every proposed parameter vector belongs to the declared search space"


class _Timeout(Exception):
    pass


def _alarm(signum, frame):  # noqa: ARG001
    raise _Timeout


def run_sequence(case):
    """case: space idx tuple, sampler name/opts, bs, seed, hist size, loss pattern. Returns (violations, info)."""
    space = L.make_space(case["space"])
    lo = np.array([L.SPECS[i][0] for i in case["space"]])
    up = np.array([L.SPECS[i][1] for i in case["space"]])
    bs = case["bs"]
    sampler = L.make_sampler(case["sampler"], case["opts"], bs, case["seed"])
    pts, losses = L.history(space, case["n"], case["pattern"], shift=case["seed"])
    if case.get("hist_dtype") == "int":
        # an on-grid history typed by hand as an INTEGER array: rows drawn from the grid elements that are whole numbers
        ints = [g[g == np.round(g)] for g in space.param_grid]
        if any(len(g) < 2 for g in ints):
            return [], {"delivered": 0, "raised": None, "regular": False}
        pts = np.array([[int(g[(r * (c + 1) + r // len(g)) % len(g)]) for c, g in enumerate(ints)] for r in range(case["n"])], dtype=np.int64)
    regular = L.is_regular(pts, losses)
    v = []
    info = {"delivered": 0, "raised": None, "regular": regular}
    handed_out = []   # (call, the array object the sampler returned, a copy of it)
    target = np.array([g[(3 * len(g)) // 5] for g in space.param_grid], dtype=float)
    old = signal.signal(signal.SIGALRM, _alarm)
    try:
        ncalls = case.get("calls", 3)
        for call in range(ncalls + (2 if case.get("space2") else 0)):
            if call == ncalls:
                # the SAME sampler object is now used on a second search space with as many parameters (no reset):
                # its proposals must belong to the space of the current call
                space = L.make_space(case["space2"])
                lo = np.array([L.SPECS[i][0] for i in case["space2"]])
                up = np.array([L.SPECS[i][1] for i in case["space2"]])
                pts, _ = L.history(space, len(pts), "distinct", shift=case["seed"])
            signal.alarm(120)
            try:
                with quiet():
                    out = sampler.sample(space, pts, losses)
            except _Timeout:
                info["raised"] = "timeout"
                break
            except Exception as e:  # noqa: BLE001
                info["raised"] = type(e).__name__
                if call >= ncalls:
                    info["raised"] = "second-space:" + type(e).__name__   # an implementation may refuse a new space without reset(): not judged
                    break
                if regular and call == 0 or (regular and L.is_regular(pts, losses)):
                    v.append(("raises-on-regular-history", f"call {call}: {type(e).__name__}: {e}"))
                break
            finally:
                signal.alarm(0)
            out = np.asarray(out)
            if out.shape != (bs, space.dims):
                v.append(("wrong-shape", f"call {call}: returned shape {out.shape}, expected {(bs, space.dims)}"))
                break
            info["delivered"] += 1
            for c in range(space.dims):
                g = space.param_grid[c]
                on = np.isin(out[:, c], g)
                if not on.all():
                    bad = float(out[~on, c][0])
                    near = float(g[np.argmin(np.abs(g - bad))])
                    kind = "clipped-to-bound" if bad in (lo[c], up[c]) else ("unit-cube-not-mapped" if 0 <= bad <= 1 and not (lo[c] <= bad <= up[c]) else "off-grid")
                    v.append((f"off-grid:{kind}", f"call {call}: coordinate {c} value {bad!r} is not an element of the grid (nearest element {near!r}; bounds [{lo[c]}, {up[c]}], precision {float(space.parameters_precision[c])!r}){' [second space ' + str([L.SPECS[i] for i in case['space2']]) + ']' if call >= ncalls else ''})"))
                    break
                if (out[:, c] < lo[c] - 1e-7).any() or (out[:, c] > up[c] + 1e-7).any():
                    bad = float(out[(out[:, c] < lo[c] - 1e-7) | (out[:, c] > up[c] + 1e-7), c][0])
                    v.append(("outside-declared-bounds", f"call {call}: coordinate {c} value {bad!r} is outside the declared bounds [{lo[c]}, {up[c]}] by more than 1e-7"))
                    break
            if v:
                break
            if call < ncalls:
                handed_out.append((call, out, out.copy()))
            # extend the history with the returned batch and a fixed loss function of the row index
            # (or, for long sequences, with the distance to a fixed grid point: the search converges and proposals start to repeat)
            k = np.arange(len(pts), len(pts) + bs, dtype=float)
            if case.get("loss_fn") == "distance":
                span = np.array([max(1e-300, float(g[-1] - g[0])) for g in space.param_grid])
                losses = np.concatenate([losses, np.sum(((out - target) / span) ** 2, axis=1)])
                pts = np.vstack([pts, out])
                continue
            pts = np.vstack([pts, out]) if case.get("hist_dtype") != "int" or not np.all(out == np.round(out)) else np.vstack([pts, out.astype(np.int64)])
            losses = np.concatenate([losses, 1.0 + ((k * 5) % 11) * 0.21])
        if not v and handed_out and not info["raised"]:
            # a batch that was handed out stays what it was: ANOTHER sampler of the same batch shape, used afterwards on ANOTHER space
            # (a second calibration in the same process), must not rewrite it
            other_idx = [(i + 7) % len(L.SPECS) for i in case["space"]]
            other = L.make_sampler("Halton", {}, bs, case["seed"] + 1)
            with quiet():
                other.sample(L.make_space(other_idx), *L.history(L.make_space(other_idx), 3, "distinct"))
            for call, arr, cp in handed_out:
                if arr.shape != cp.shape or not np.array_equal(arr, cp, equal_nan=True):
                    v.append(("returned-batch-overwritten-later", f"the batch returned by call {call} was rewritten by later sample() calls (now {np.asarray(arr).tolist()[:2]}, was {cp.tolist()[:2]})"))
                    break
    finally:
        signal.signal(signal.SIGALRM, old)
    return v, info


def run_cell(cell):
    res = {"evaluations": 0, "nontrivial": 0, "states": 0, "transitions": 0, "traces": 0, "stats": {}, "outcomes": set(), "violations": [], "samples": []}
    st = res["stats"]
    for case in cell["cases"]:
        vs, info = run_sequence(case)
        res["evaluations"] += 1
        res["traces"] += 1
        res["transitions"] += info["delivered"]
        name = case["sampler"]
        space = case["space"]
        nonaligned = any(idx in (3, 4, 6, 7, 8, 10, 11) for idx in space)
        if nonaligned:
            res["nontrivial"] += 1
        if info["delivered"]:
            res["outcomes"].add((name, len(space)))
        else:
            st[f"no_batch:{name}"] = st.get(f"no_batch:{name}", 0) + 1
        if info["raised"] and not vs:
            st[f"unjudged_exception_on_degenerate_history:{name}:{info['raised']}"] = st.get(f"unjudged_exception_on_degenerate_history:{name}:{info['raised']}", 0) + 1
        if info["raised"] == "timeout":
            res.setdefault("caps_hit", []).append(f"{name} did not return within 120 s on a history (not judged)")
        for key, what in vs:
            key = f"{key}:{name}"
            if sum(1 for x in res["violations"] if x["key"] == key) < 1:
                res["violations"].append({"key": key, "what": f"[{name}{case['opts']} space={[L.SPECS[i] for i in space]} bs={case['bs']} history={case['n']} rows/{case['pattern']} seed={case['seed']}] {what}", "case": case})
    res["states"] = res["evaluations"]
    c = cell["cases"][0]
    res["samples"] = [{"sampler": c["sampler"], "space": [L.SPECS[i] for i in c["space"]], "history_rows": c["n"], "losses": c["pattern"]}]
    res["outcomes"] = sorted(res["outcomes"])
    return res


def replay_case(case):
    vs, _ = run_sequence(case)
    return [{"key": f"{k}:{case['sampler']}", "what": w} for k, w in vs]


def main(ctx):
    S = ctx.seed
    spaces = L.spaces(ctx.tier)
    cases = []
    B = 3
    for sp in spaces:
        for name, opts in L.CHEAP:
            for n in (B, B + 1, 3 * B):
                for pattern in ("distinct", "ties", "equal", "huge"):
                    for seed in (S, S + 1):
                        if name in ("Halton", "RSequence", "RandomUniform") and (pattern != "distinct" and n != 3 * B):
                            continue  # history-free samplers: the loss pattern is irrelevant, keep one size per pattern
                        cases.append({"space": list(sp), "sampler": name, "opts": opts, "bs": B if name != "ParticleSwarm" else 2, "seed": seed, "n": n, "pattern": pattern})
    costly_spaces = [s for s in spaces if len(s) == 1] + [s for i, s in enumerate(spaces) if len(s) > 1 and i % (9 if ctx.quick else 3) == 0]
    for sp in costly_spaces:
        for name, opts in L.COSTLY:
            for n, pattern in ((3 * B, "distinct"), (3 * B, "ties"), (B + 1, "huge"), (B, "equal")) if ctx.quick else [(n, p) for n in (B, B + 1, 3 * B) for p in ("distinct", "ties", "equal", "huge")]:
                cases.append({"space": list(sp), "sampler": name, "opts": opts, "bs": 2, "seed": S, "n": n, "pattern": pattern, "calls": 3})
    # small, nearly exhausted spaces with a single deduplication pass: repeats persist through all passes
    for sp in ([1], [11], [3], [1, 11], [8]):
        for name, opts in (("RandomUniform", {"max_deduplication_passes": 1}), ("Halton", {"max_deduplication_passes": 1}), ("BestBatch", {"max_deduplication_passes": 2}),
                           ("XGBoost", {"n_estimators": 3, "candidate_pool_size": 10, "max_deduplication_passes": 1})):
            for seed in range(S, S + (6 if ctx.quick else 20)):
                space = L.make_space(sp)
                n = min(10, int(np.prod([len(g) for g in space.param_grid])))
                cases.append({"space": list(sp), "sampler": name, "opts": opts, "bs": 3, "seed": seed, "n": n, "pattern": "distinct"})
    # larger-scope probes: batch size 9, history of 40 rows, 15 parameters (cheap samplers), 8 parameters with a surrogate
    for name, opts in L.CHEAP:
        for sp in ([0, 3, 4, 5, 8, 11, 1, 2, 6, 7, 9, 10, 0, 3, 4], [4, 8]):
            cases.append({"space": sp, "sampler": name, "opts": opts, "bs": 9, "seed": S, "n": 40, "pattern": "ties"})
    for name, opts in [x for x in L.COSTLY if x[0] != "CORS"]:
        cases.append({"space": [0, 3, 4, 5, 8, 11, 1, 2], "sampler": name, "opts": opts, "bs": 6, "seed": S, "n": 30, "pattern": "distinct"})
    # state carried between two uses of one object: after the three calls, two more calls on a SECOND space of the same dimension
    for c in list(cases):
        if c["sampler"] in ("BestBatch", "ParticleSwarm", "Halton", "RSequence", "RandomUniform") and c["pattern"] == "distinct" and c["n"] == 3 * B and c["bs"] <= 3:
            cases.append(dict(c, space2=[(i + 5) % len(L.SPECS) for i in c["space"]]))
    for name, opts in L.COSTLY:
        for sp in ([1], [3, 4]):
            cases.append({"space": sp, "sampler": name, "opts": opts, "bs": 2, "seed": S, "n": 3 * B, "pattern": "distinct", "calls": 2, "space2": [(i + 5) % len(L.SPECS) for i in sp]})
    # long sequences on one object with a loss that lets the search converge (proposals repeat, swarms stall)
    for name, opts in (("ParticleSwarm", {}), ("ParticleSwarm", {"global_minimum_across_samplers": True}), ("BestBatch", {"perturbation_range": 2})):
        for sp in ([1], [3], [4], [11], [1, 11], [4, 8], [0, 3], [12, 5]):
            for bsz in (2, 5):
                cases.append({"space": sp, "sampler": name, "opts": opts, "bs": bsz, "seed": S, "n": 3 * B, "pattern": "distinct", "calls": 40 if ctx.quick else 120, "loss_fn": "distance"})
    # on-grid histories typed as integer arrays (fractional steps, whole-number elements)
    for sp in ([12], [5], [8], [9], [0], [2], [12, 12], [5, 8], [9, 12], [8, 12, 5], [2, 5]):
        for name, opts in L.CHEAP:
            for n in (B, 3 * B):
                cases.append({"space": sp, "sampler": name, "opts": opts, "bs": B if name != "ParticleSwarm" else 2, "seed": S, "n": n, "pattern": "distinct", "hist_dtype": "int"})
        for name, opts in L.COSTLY:
            if len(sp) > 1:
                cases.append({"space": sp, "sampler": name, "opts": opts, "bs": 2, "seed": S, "n": 3 * B, "pattern": "distinct", "hist_dtype": "int", "calls": 2})
    costly = [c for c in cases if c["sampler"] in ("CORS", "GaussianProcess", "XGBoost", "RandomForest")]
    cheap = [c for c in cases if c not in costly]
    cells = [{"cases": costly[i::64]} for i in range(64)] + [{"cases": cheap[i::48]} for i in range(48)]
    cells = [c for c in cells if c["cases"]]
    ctx.bounds = {"spaces": len(spaces), "specs": L.SPECS, "cheap_sampler_variants": len(L.CHEAP), "costly_sampler_variants": len(L.COSTLY), "costly_spaces": len(costly_spaces),
                  "history_sizes": [B, B + 1, 3 * B], "loss_patterns": ["distinct", "ties", "equal", "huge"], "seeds": [S, S + 1], "successive_calls": 3, "sequences": len(cases),
                  "second_space_sequences": sum(1 for c in cases if c.get("space2")), "integer_typed_history_sequences": sum(1 for c in cases if c.get("hist_dtype"))}
    ctx.rule = "one evaluation = one sampler object driven through three successive sample() calls; non-trivial = the space has a parameter whose range is not a multiple of its precision"
    ctx.assumptions = ["exceptions on degenerate histories (repeated rows or all-equal losses) are recorded per sampler and not judged", "a 30 s alarm turns a non-terminating sampler call into a reported cap"]
    ctx.pmap("vf.checks.c03:run_cell", cells)
    classes = {o[0] for o in ctx.outcomes}
    ctx.require(classes >= {"Halton", "RSequence", "RandomUniform", "BestBatch", "ParticleSwarm", "CORS", "GaussianProcess", "XGBoost", "RandomForest"}, f"some sampler class never delivered a batch: {classes}")
    # vacuity: there is a space where clipping to the bound is not snapping to the grid
    ctx.require(any(not np.isin(up, np.arange(lo, up + 1e-7, pr)) for lo, up, pr in L.SPECS), "no space whose upper bound is off the grid")
