"""C13 - quasi-random samplers emit the true Halton and R sequences, without gaps (E4).

halton()      : every index of [0, 2^16+2^12) for the first 10 (quick) / 40 (thorough) primes against exact
                Fraction digit reversal, each index produced as part of batches of several sizes and alignments
                (so the start/size bookkeeping is quantified over, not only the digits).
primes        : get_n_primes(n) for all n up to a bound against a plain sieve; all call sequences of length <= 3
                over {1,3,10,40} on one calculator (cache).
HaltonSampler : seeds S..S+49: start index recovered from the base-2 coordinate, in [20, 2^16), function of the
                seed; k-th point = radical inverse of s+k; every composition of n <= 6 into batch sizes equals one
                batch of n; reseeding restarts; through the public path on the dyadic grid 2^-17 and with the
                module's digitize_data bound to the identity (pre-snapping values) for d <= 40.
RSequence     : phi_d against a 60-digit Decimal fixed point for d = 1..40; consecutive raw points advance by
                (phi^-1..phi^-d) mod 1; compositions equal the single batch bitwise; twin/reseed determinism.
"""
from __future__ import annotations

import itertools
from decimal import Decimal, getcontext
from fractions import Fraction

import numpy as np

ID = "C13"
TITLE = "Quasi-random samplers emit the true Halton and R sequences, without gaps"
N_IDX = 2**16 + 2**12


def sieve(n):
    out, c = [], 2
    while len(out) < n:
        if all(c % p for p in out if p * p <= c):
            out.append(c)
        c += 1
    return out


def radical_inverse(i, b):
    f, d = Fraction(0), Fraction(1, b)
    while i:
        i, r = divmod(i, b)
        f += r * d
        d /= b
    return f


def ri_float(i, b):
    """Correctly rounded radical inverse: reversed-digit integer over b^digits (int/int division is exact-rounded)."""
    rev, den = 0, 1
    while i:
        i, r = divmod(i, b)
        rev = rev * b + r
        den *= b
    return rev / den


_REF_TABLES = {}


def ref_table(lo, hi, bases):
    key = (lo, hi, tuple(bases))
    if key not in _REF_TABLES:
        if len(_REF_TABLES) > 4:
            _REF_TABLES.clear()
        _REF_TABLES[key] = np.array([[ri_float(i, b) for b in bases] for i in range(lo, hi)])
    return _REF_TABLES[key]


def _res():
    return {"evaluations": 0, "nontrivial": 0, "states": 0, "transitions": 0, "traces": 0, "stats": {}, "outcomes": set(), "violations": [], "samples": []}


def _viol(res, key, what, case):
    if sum(1 for v in res["violations"] if v["key"] == key) < 2:
        res["violations"].append({"key": key, "what": what, "case": case})


# ---------------------------------------------------------------------------------------------
def check_halton_call(n_start, size, nb, table=None, table_lo=0):
    """One call of halton(size, first nb primes, n_start) against the reference; returns violations list."""
    from black_it.samplers.halton import halton

    bases = np.array(sieve(nb))
    out = halton(sample_size=size, bases=bases, n_start=n_start)
    if out.shape != (size, nb):
        return [("halton-shape", f"halton({size},{nb} bases,{n_start}) returned shape {out.shape}")]
    if table is not None:
        ref = table[n_start + 1 - table_lo:n_start + 1 - table_lo + size]
    else:
        ref = np.array([[ri_float(n_start + k + 1, int(b)) for b in bases] for k in range(size)])
    bad = np.argwhere(~(np.abs(out - ref) <= 1e-15))
    if len(bad):
        k, j = map(int, bad[0])
        return [("halton-digits", f"halton(sample_size={size}, n_start={n_start}) point {k} (index {n_start + k + 1}) base {bases[j]}: {out[k, j]!r}, radical inverse {ref[k, j]!r}")]
    return []


def _near_power(e, bases, width):
    for b in bases:
        p = b
        while p <= e + width:
            if abs(e - p) <= width:
                return True
            p *= b
    return False


def cell_halton(cell):
    res = _res()
    nb, lo, hi, sizes = cell["nb"], cell["lo"], cell["hi"], cell["sizes"]
    dense = cell.get("dense", [])          # sizes for which every end position is taken
    window = cell.get("window", 0)         # other sizes: every end position within `window` of a power of a small base, else stepped
    primes = sieve(nb)
    table = ref_table(max(0, lo - 70), hi + 70, primes)
    table_lo = max(0, lo - 70)
    for size in sizes:
        e = lo + 1
        nxt_aligned = lo + size
        while e <= hi:
            n_start = e - size
            take = size in dense or e == nxt_aligned or (window and _near_power(e, (2, 3, 5), window if size <= 8 else 2))
            if e >= nxt_aligned:
                nxt_aligned += size
            if take and n_start >= table_lo - 1 and n_start >= 0:
                vs = check_halton_call(n_start, size, nb, table, table_lo)
                res["evaluations"] += 1
                res["transitions"] += size * nb
                res["traces"] += 1
                if size > 1:
                    res["nontrivial"] += 1
                for key, what in vs:
                    _viol(res, key, what, {"mode": "halton", "n_start": n_start, "size": size, "nb": nb})
            e += 1
    res["states"] = res["evaluations"]
    res["samples"] = [{"halton": {"sample_size": sizes[0], "n_start": lo, "bases": sieve(min(nb, 5))}}]
    res["outcomes"] = [("halton", nb)]
    return res


def _prime_provider():
    """The class in black_it.samplers.halton that offers get_n_primes() (a private helper: found by its method, not by its name)."""
    import inspect

    import black_it.samplers.halton as hm

    for _, obj in inspect.getmembers(hm, inspect.isclass):
        if obj.__module__ == hm.__name__ and hasattr(obj, "get_n_primes"):
            try:
                obj()
                return obj
            except TypeError:
                continue
    return None


def cell_primes(cell):
    _CachedPrimesCalculator = _prime_provider()
    res = _res()
    if _CachedPrimesCalculator is None:
        # no stand-alone prime provider any more: the prime table is still exercised through the 40-dimensional sampler checks
        res["stats"]["prime_provider_not_found"] = 1
        res["outcomes"] = [("primes", 0)]
        return res
    ref = sieve(cell["nmax"])
    for n in range(1, cell["nmax"] + 1):
        got = _CachedPrimesCalculator().get_n_primes(n)
        res["evaluations"] += 1
        if list(map(int, got)) != ref[:n]:
            _viol(res, "primes", f"get_n_primes({n}) = {list(map(int, got))[:12]}..., expected {ref[:n][:12]}...", {"mode": "primes", "seq": [n]})
    for seq in itertools.chain.from_iterable(itertools.product([1, 3, 10, 40], repeat=r) for r in (1, 2, 3)):
        calc = _CachedPrimesCalculator()
        for n in seq:
            got = calc.get_n_primes(n)
            res["transitions"] += 1
            if list(map(int, got)) != ref[:n]:
                _viol(res, "primes-cache", f"call sequence {seq}: get_n_primes({n}) = {list(map(int, got))}", {"mode": "primes", "seq": list(seq)})
        res["evaluations"] += 1
        res["nontrivial"] += 1
    res["states"] = res["traces"] = res["evaluations"]
    res["outcomes"] = [("primes", cell["nmax"])]
    return res


# ---------------------------------------------------------------------------------------------
def _space(d, step):
    from black_it.search_space import SearchSpace

    return SearchSpace([[0.0] * d, [1.0] * d], [step] * d, verbose=False)


def _compositions(n):
    for cuts in itertools.product((0, 1), repeat=n - 1):
        parts, cur = [], 1
        for c in cuts:
            if c:
                parts.append(cur)
                cur = 1
            else:
                cur += 1
        parts.append(cur)
        yield parts


class _Identity:
    """Temporarily bind digitize_data (in a sampler module and in black_it.utils.base) to the identity: exposes pre-snapping
    values. If a refactor reaches the snapping routine some other way the binding has no effect; callers detect that and fall
    back to the public path."""

    def __init__(self, mod):
        import black_it.utils.base as ub

        self.mods = [mod, ub]

    def __enter__(self):
        self.orig = []
        for m in self.mods:
            if hasattr(m, "digitize_data"):
                self.orig.append((m, m.digitize_data))
                m.digitize_data = lambda data, grid: np.array(data, dtype=float)

    def __exit__(self, *a):
        for m, f in self.orig:
            m.digitize_data = f


def _invert_base2(x):
    """Index whose base-2 radical inverse is x (x a multiple of 2^-17)."""
    n = int(round(x * 2**17))
    bits = format(n, "017b")
    return int(bits[::-1], 2)


def check_halton_sampler(seed, d, raw, n=6, bs=2):
    """Returns (violations, start index)."""
    import black_it.samplers.halton as hm
    from black_it.samplers.halton import HaltonSampler
    from vf.core import quiet

    v = []
    primes = sieve(d)
    sp = _space(d, 2.0**-17 if not raw else 0.5)
    empty_p, empty_l = np.zeros((0, d)), np.zeros(0)

    def draw(sampler, sizes):
        with quiet():
            if raw:
                with _Identity(hm):
                    return np.vstack([sampler.sample_batch(k, sp, empty_p, empty_l) for k in sizes])
            return np.vstack([sampler.sample_batch(k, sp, empty_p, empty_l) for k in sizes])

    one = draw(HaltonSampler(batch_size=bs, random_state=seed), [n])
    if one.shape != (n, d):
        return [("sampler-shape", f"HaltonSampler seed {seed}: batch shape {one.shape}")], None
    if raw and np.all(np.isin(one, sp.param_grid[0])):
        # the identity binding of digitize_data had no effect (the module reaches the snapping routine another way):
        # fall back to the public path on the dyadic grid for this case instead of judging snapped values as raw ones
        return check_halton_sampler(seed, min(d, 3), False, n, bs)
    s = _invert_base2(one[0, 0]) - 1
    if not (20 <= s < 2**16):
        v.append(("start-index-range", f"HaltonSampler seed {seed}: first point {one[0, 0]!r} is the base-2 radical inverse of {s + 1}, start index {s} not in [20, 2^16)"))
    grid = sp.param_grid[0]
    for k in range(n):
        for j, b in enumerate(primes):
            ref = ri_float(s + k + 1, b)
            if not raw:
                ref = float(grid[np.argmin(np.abs(grid - ref))])
                ok = abs(one[k, j] - ref) <= 2.0**-17 + 1e-15 if j else one[k, j] == ref
            else:
                ok = abs(one[k, j] - ref) <= 1e-15
            if not ok:
                v.append(("sampler-sequence", f"HaltonSampler seed {seed} d={d}: point {k} coordinate {j} = {one[k, j]!r}, radical inverse of {s + k + 1} in base {b} is {ref!r}"))
                return v, s
    for parts in _compositions(n):
        got = draw(HaltonSampler(batch_size=bs, random_state=seed), parts)
        if not np.array_equal(got, one):
            v.append(("batches-not-contiguous", f"HaltonSampler seed {seed} d={d}: batch sizes {parts} differ from one batch of {n} (first differing row {int(np.argmax(np.any(got != one, axis=1)))})"))
            break
    # reseeding: two samplers built with different constructor seeds and then given the same seed agree, and
    # reseeding a used sampler restarts the sequence (this is the path the calibrator uses at batch 0)
    t1 = HaltonSampler(batch_size=bs, random_state=seed + 1000)
    t1.random_state = seed
    first = draw(t1, [n])
    t2 = HaltonSampler(batch_size=bs, random_state=None)
    draw(t2, [3])
    t2.random_state = seed
    if not np.array_equal(draw(t2, [n]), first):
        v.append(("reseed-does-not-restart", f"two HaltonSamplers reseeded with {seed} (one of them after use) emit different sequences"))
    t1.random_state = seed
    if not np.array_equal(draw(t1, [n]), first):
        v.append(("reseed-does-not-restart", f"HaltonSampler reseeded with {seed} after use does not restart the sequence of seed {seed}"))
    s2 = _invert_base2(first[0, 0]) - 1 if not raw or True else None
    if first.shape == (n, d) and not (20 <= s2 < 2**16):
        v.append(("start-index-range", f"HaltonSampler reseeded with {seed}: start index {s2} not in [20, 2^16)"))
    return v, s


def check_rseq(seed, d, n=6, bs=2, raw=True):
    import black_it.samplers.r_sequence as rm
    from black_it.samplers.r_sequence import RSequenceSampler
    from vf.core import quiet

    v = []
    sp = _space(d, 0.5 if raw else 2.0**-17)
    tol = 1e-9 if raw else 2.0**-16
    empty_p, empty_l = np.zeros((0, d)), np.zeros(0)

    def draw(sampler, sizes):
        with quiet():
            if raw:
                with _Identity(rm):
                    return np.vstack([sampler.sample_batch(k, sp, empty_p, empty_l) for k in sizes])
            return np.vstack([sampler.sample_batch(k, sp, empty_p, empty_l) for k in sizes])

    one = draw(RSequenceSampler(batch_size=bs, random_state=seed), [n])
    if one.shape != (n, d):
        return [("rseq-shape", f"RSequenceSampler seed {seed}: shape {one.shape}")], True
    if raw and np.all(np.isin(one, sp.param_grid[0])):
        # identity binding ineffective (the module reaches the snapping routine another way): public path on the dyadic grid instead
        return check_rseq(seed, min(d, 3), n, bs, raw=False)
    if np.any(one < 0) or np.any(one >= 1 + (0 if raw else 1e-12)):
        v.append(("rseq-range", f"RSequenceSampler seed {seed} d={d}: raw points outside [0,1)"))
    phi = phi_ref(d)
    alpha = [float(Decimal(1) / phi**k) for k in range(1, d + 1)]
    diff = np.diff(one, axis=0)
    for j in range(d):
        dd = (diff[:, j] - alpha[j] + 0.5) % 1.0 - 0.5
        if np.max(np.abs(dd)) > tol:
            v.append(("rseq-increment", f"RSequenceSampler seed {seed} d={d}: coordinate {j} advances by {diff[:, j].tolist()} (mod 1), expected {alpha[j]!r}"))
            break
    for parts in _compositions(n):
        got = draw(RSequenceSampler(batch_size=bs, random_state=seed), parts)
        if not np.array_equal(got, one):
            v.append(("batches-not-contiguous", f"RSequenceSampler seed {seed} d={d}: batch sizes {parts} differ from one batch of {n}"))
            break
    t1 = RSequenceSampler(batch_size=bs, random_state=seed + 1000)
    t1.random_state = seed
    first = draw(t1, [n])
    t2 = RSequenceSampler(batch_size=bs, random_state=None)
    draw(t2, [3])
    t2.random_state = seed
    if not np.array_equal(draw(t2, [n]), first):
        v.append(("reseed-does-not-restart", f"two RSequenceSamplers reseeded with {seed} (one of them after use) emit different sequences"))
    t1.random_state = seed
    if not np.array_equal(draw(t1, [n]), first):
        v.append(("reseed-does-not-restart", f"RSequenceSampler reseeded with {seed} after use does not restart"))
    other = draw(RSequenceSampler(batch_size=bs, random_state=seed + 1), [n])
    return v, not np.array_equal(other, one)


def check_dim_change(kind, seed, d1, d2, n=4):
    """State carried between two uses of one object: a sampler that drew n points in d1 dimensions continues, in d2 dimensions,
    exactly like a same-seed sampler that drew its first n points in d2 dimensions (the cursor does not depend on the space, and
    nothing computed for d1 may leak into d2). Public path on the dyadic grid (snapping injective)."""
    from black_it.samplers.halton import HaltonSampler
    from black_it.samplers.r_sequence import RSequenceSampler
    from vf.core import quiet

    cls = HaltonSampler if kind == "halton" else RSequenceSampler
    sp1, sp2 = _space(d1, 2.0**-17), _space(d2, 2.0**-17)

    def draw(s, sp, k):
        with quiet():
            return np.asarray(s.sample_batch(k, sp, np.zeros((0, sp.dims)), np.zeros(0)))

    a = cls(batch_size=n, random_state=seed)
    draw(a, sp1, n)
    a2 = draw(a, sp2, n)
    b = cls(batch_size=n, random_state=seed)
    draw(b, sp2, n)
    b2 = draw(b, sp2, n)
    if a2.shape != b2.shape or not np.array_equal(a2, b2):
        return [(f"{kind}-depends-on-earlier-space", f"{cls.__name__} seed {seed}: points {n}..{2 * n - 1} in {d2} dimensions differ when the first {n} points were drawn in {d1} dimensions "
                 f"(first differing column {int(np.argmax(np.any(a2 != b2, axis=0))) if a2.shape == b2.shape else 'shape'})")]
    return []


def check_copies(kind, seed, d, used, n=4):
    """A sampler that was pickled or deep-copied (a template copied per run, an object sent to a worker, a checkpoint written before
    its first turn) continues exactly like the original - whether the copy was taken before the first draw or after some draws."""
    import copy
    import pickle

    from black_it.samplers.halton import HaltonSampler
    from black_it.samplers.r_sequence import RSequenceSampler
    from vf.core import quiet

    cls = HaltonSampler if kind == "halton" else RSequenceSampler
    sp, sp_small = _space(d, 2.0**-17), _space(2, 2.0**-17)

    def draw(s, space, k):
        with quiet():
            return np.asarray(s.sample_batch(k, space, np.zeros((0, space.dims)), np.zeros(0)))

    a = cls(batch_size=n, random_state=seed)
    if used == "same":
        draw(a, sp, n)
    elif used == "small":
        draw(a, sp_small, n)
    try:
        copies = {"pickle": pickle.loads(pickle.dumps(a)), "deepcopy": copy.deepcopy(a)}
    except Exception:  # noqa: BLE001  (whether a sampler can be copied at all is C04's subject)
        return []
    want = draw(a, sp, n)
    for how, c in copies.items():
        got = draw(c, sp, n)
        if got.shape != want.shape or not np.array_equal(got, want):
            return [(f"{kind}-copy-differs", f"{cls.__name__} seed {seed}, {d} dimensions: a {how} copy taken {'before the first draw' if used == 'fresh' else 'after a draw in ' + ('2' if used == 'small' else str(d)) + ' dimensions'} "
                     f"continues differently from the original (first differing column {int(np.argmax(np.any(got != want, axis=0))) if got.shape == want.shape else 'shape'})")]
    return []


_PHI = {}


def phi_ref(d):
    if d not in _PHI:
        getcontext().prec = 60
        x = Decimal(2)
        for _ in range(400):
            x = (1 + x) ** (Decimal(1) / Decimal(d + 1))
        _PHI[d] = x
    return _PHI[d]


def cell_samplers(cell):
    from black_it.samplers.r_sequence import RSequenceSampler

    res = _res()
    starts = {}
    for seed in cell["seeds"]:
        for d, raw in cell["halton_dims"]:
            vs, s = check_halton_sampler(seed, d, raw)
            res["evaluations"] += 1
            res["traces"] += 32
            res["transitions"] += 32 * 6
            res["nontrivial"] += 1
            starts.setdefault(seed, set()).add(s)
            for key, what in vs:
                _viol(res, key, what, {"mode": "halton-sampler", "seed": seed, "d": d, "raw": raw})
        for d in cell["rseq_dims"]:
            vs, differs = check_rseq(seed, d)
            res["evaluations"] += 1
            res["traces"] += 32
            res["nontrivial"] += 1
            res["stats"]["rseq_other_seed_differs"] = res["stats"].get("rseq_other_seed_differs", 0) + int(differs)
            for key, what in vs:
                _viol(res, key, what, {"mode": "rseq", "seed": seed, "d": d})
    for seed in cell["seeds"][:2]:
        for d1, d2 in cell.get("dim_changes", []):
            for kind in ("halton", "rseq"):
                vs = check_dim_change(kind, seed, d1, d2)
                res["evaluations"] += 1
                res["traces"] += 1
                res["nontrivial"] += 1
                for key, what in vs:
                    _viol(res, key, what, {"mode": "dim-change", "kind": kind, "seed": seed, "d1": d1, "d2": d2})
    for seed in cell["seeds"][:1]:
        for d in cell.get("copy_dims", []):
            for kind in ("halton", "rseq"):
                for used in ("fresh", "same", "small"):
                    vs = check_copies(kind, seed, d, used)
                    res["evaluations"] += 1
                    res["traces"] += 1
                    res["nontrivial"] += 1
                    for key, what in vs:
                        _viol(res, key, what, {"mode": "copies", "kind": kind, "seed": seed, "d": d, "used": used})
    for seed, ss in starts.items():
        if len(ss) != 1:
            _viol(res, "start-index-not-function-of-seed", f"HaltonSampler seed {seed}: start indices {sorted(ss)} across dimensions", {"mode": "halton-sampler", "seed": seed, "d": 1, "raw": False})
    res["outcomes"] = [("start", min(s)) for s in starts.values() if None not in s]
    if cell.get("phi"):
        for d in range(1, 41):
            got = RSequenceSampler.compute_phi(d)
            res["evaluations"] += 1
            if abs(Decimal(got) - phi_ref(d)) > Decimal("1e-14"):
                _viol(res, "phi", f"compute_phi({d}) = {got!r}, reference {float(phi_ref(d))!r}", {"mode": "phi", "d": d})
    res["states"] = res["evaluations"]
    if cell["seeds"]:
        res["samples"] = [{"halton_sampler_seed": cell["seeds"][0], "start_index": sorted(starts.get(cell["seeds"][0], {None}), key=str)[0]}]
    return res


def run_cell(cell):
    return {"halton": cell_halton, "primes": cell_primes, "samplers": cell_samplers}[cell["kind"]](cell)


def replay_case(case):
    m = case["mode"]
    if m == "halton":
        return [{"key": k, "what": w} for k, w in check_halton_call(case["n_start"], case["size"], case["nb"])]
    if m == "halton-sampler":
        vs, _ = check_halton_sampler(case["seed"], case["d"], case["raw"])
        return [{"key": k, "what": w} for k, w in vs]
    if m == "rseq":
        vs, _ = check_rseq(case["seed"], case["d"])
        return [{"key": k, "what": w} for k, w in vs]
    if m == "copies":
        return [{"key": k, "what": w} for k, w in check_copies(case["kind"], case["seed"], case["d"], case["used"])]
    if m == "dim-change":
        return [{"key": k, "what": w} for k, w in check_dim_change(case["kind"], case["seed"], case["d1"], case["d2"])]
    if m == "primes":
        r = cell_primes({"nmax": max(case["seq"] + [40])})
        return [{"key": v["key"], "what": v["what"]} for v in r["violations"]]
    r = cell_samplers({"seeds": [], "halton_dims": [], "rseq_dims": [], "phi": True})
    return [{"key": v["key"], "what": v["what"]} for v in r["violations"]]


def main(ctx):
    S = ctx.seed
    cells = []
    DIMS_CH = [1, 2, 3, 5, 6, 12, 17, 18, 20, 33, 40]
    nb = 10 if ctx.quick else 40
    chunk = 1024
    for lo in range(0, N_IDX, chunk):
        hi = min(lo + chunk, N_IDX)
        if ctx.quick:
            cells.append({"kind": "halton", "nb": nb, "lo": lo, "hi": hi, "sizes": [1, 2, 3], "dense": [1, 2]})
            cells.append({"kind": "halton", "nb": 3, "lo": lo, "hi": hi, "sizes": [5, 8, 61], "window": 12})
        else:
            cells.append({"kind": "halton", "nb": nb, "lo": lo, "hi": hi, "sizes": [1, 2, 3, 4], "dense": [1, 2]})
            cells.append({"kind": "halton", "nb": 5, "lo": lo, "hi": hi, "sizes": [3, 5, 8, 16, 61], "dense": [3], "window": 32})
    if ctx.quick:
        # all 40 primes on windows around powers of each base (where the carries are)
        for lo in (0, 2**10 - 64, 2**12 - 64, 3**7 - 64, 5**5 - 64, 7**4 - 64, 2**15 - 64, 2**16 - 64, 173**2 - 64, N_IDX - 512):
            cells.append({"kind": "halton", "nb": 40, "lo": max(0, lo), "hi": max(0, lo) + 400, "sizes": [1, 3], "dense": [1]})
    cells.append({"kind": "primes", "nmax": 200 if ctx.quick else 2000})
    nseeds = 50 if ctx.quick else 200
    seeds = list(range(S, S + nseeds))
    for i in range(0, nseeds, 5):
        cells.append({"kind": "samplers", "seeds": seeds[i:i + 5], "halton_dims": [(1, False), (2, False), (3, False), (3, True), (10, True), (17, True), (18, True), (22, True), (40, True)] if i == 0 or not ctx.quick else [(1, False), (3, False), (5, True), (16 + i // 5, True), (20 + i // 5, True)],
                      "rseq_dims": [1, 2, 3, 10, 40] if i == 0 or not ctx.quick else [1, 2, 7], "phi": i == 0,
                      "dim_changes": [(a, b) for a in DIMS_CH for b in DIMS_CH if a != b][i // 5::nseeds // 5], "copy_dims": DIMS_CH[i // 5::nseeds // 5]})
    ctx.bounds = {"halton_indices": f"[0, {N_IDX})", "primes": nb, "batch_sizes": "sizes 1,2 at every end position, 3(,4) aligned; sizes 5,8,61(,16) aligned and at every end position within 12 (32 thorough; 2 for size > 8) of a power of 2, 3 or 5", "sampler_seeds": f"{S}..{S + nseeds - 1}",
                  "compositions": "all 32 compositions of 6", "pickled_and_deep_copied_samplers": "copies taken before the first draw / after a draw in the same / in 2 dimensions, 11 dimensions, both samplers", "dimension_changes_on_one_object": "all ordered pairs of {1,2,3,5,6,12,17,18,20,33,40}, both samplers, two seeds", "dims": "1..3 public path on dyadic grid 2^-17; up to 40 with identity snapping"}
    ctx.rule = ("every index of the range in every listed batch size/alignment; every composition of 6; evaluations = halton()/sampler scenarios judged; "
                "non-trivial = batch of more than one point / sampler scenario")
    ctx.assumptions = ["reference radical inverse by exact Fraction digit reversal; phi_d by 60-digit Decimal fixed-point iteration",
                       "identity binding of digitize_data in the sampler module exposes the pre-snapping values the property speaks about"]
    ctx.pmap("vf.checks.c13:run_cell", cells)
    ctx.require(ctx.evaluations > 50000, "too few halton() calls judged")
    ctx.require(len(ctx.outcomes) > 10, "start indices did not vary with the seed")
    ctx.require(ctx.stats.get("rseq_other_seed_differs", 0) > 0, "R-sequence did not vary with the seed")
