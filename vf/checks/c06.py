"""C06 - an interrupted checkpoint save is never restored as a silent hybrid (E3).

JSON/CSV/pickle/HDF5 back-end: the real save is recorded on top of a previous checkpoint (five kinds); EVERY prefix of the
file-operation log and every byte cut inside every write is materialised and restored with the real restore path; the outcome
must be an error, exactly the previous checkpoint, or exactly the new one. The back-end is non-atomic by construction: the
(file, phase) -> outcome classes it produces today are listed as known findings; anything else is a violation.
SQLite back-end: an exception is injected at every traced line of its save (small and > 2 MB states) - the previous checkpoint
must still load and equal the old state (or the new one if the fault came after the commit) - and the database file and its
journal are snapshotted at every line and each snapshot loaded: old | new (a transactional back-end must stay loadable).
"""
from __future__ import annotations

import copy
import shutil
import sys
from pathlib import Path

import numpy as np

from vf.canon import canon
from vf.core import quiet
from vf.crash import recorder as R
from vf.opseq import cal as C

ID = "C06"
TITLE = "An interrupted checkpoint save is never restored as a silent hybrid"
COMPONENTS = ["json", "scheduler", "loss", "csv", "series"]
FILE_OF = {"calibration_params.json": "json", "scheduler_pickled.pickle": "scheduler", "loss_function_pickled.pickle": "loss", "calibration_results.csv": "csv", "series_samp.h5": "series"}


def components(cal):
    """Canonical state split by the file each part comes from."""
    return {
        "json": canon({"b": cal.current_batch_index, "n": cal.n_sampled_params, "rng": cal.random_generator, "rs": cal.random_state,
                       "cfg": [cal.N, cal.D, cal.ensemble_size, cal.convergence_precision, cal.verbose, cal.n_jobs, np.asarray(cal.real_data),
                               np.asarray(cal.param_grid.parameters_bounds, dtype=float), np.asarray(cal.param_grid.parameters_precision, dtype=float)]}),
        "scheduler": canon(cal.scheduler),
        "loss": canon(cal.loss_function),
        "csv": canon([cal.params_samp, cal.losses_samp, cal.batch_num_samp, cal.method_samp]),
        "series": canon(cal.series_samp),
    }


def classify(got, old, new):
    """'old' | 'new' | signature string of a hybrid."""
    if old is not None and all(got[c] == old[c] for c in COMPONENTS):
        return "old"
    if all(got[c] == new[c] for c in COMPONENTS):
        return "new"
    sig = {"new": [], "old": [], "garbled": []}
    for c in COMPONENTS:
        is_new = got[c] == new[c]
        is_old = old is not None and got[c] == old[c]
        if is_new and is_old:
            continue
        sig["new" if is_new else "old" if is_old else "garbled"].append(c)
    return ";".join(f"{k}={'+'.join(v)}" for k, v in sig.items() if v)


ORDER = ["json", "scheduler", "loss", "csv", "series"]


def conforms(sig, file_component=None):
    """Is a hybrid explained by the documented write order (json, scheduler pickle, loss pickle, csv, series): everything before
    the interrupted file new, everything after it old, only the interrupted file possibly garbled?"""
    parts = dict(p.split("=") for p in sig.split(";"))
    new = parts.get("new", "").split("+") if parts.get("new") else []
    old = parts.get("old", "").split("+") if parts.get("old") else []
    bad = parts.get("garbled", "").split("+") if parts.get("garbled") else []
    if len(bad) > 1:
        return False
    for split in range(len(ORDER) + 1):
        before, after = set(ORDER[:split]), set(ORDER[split:])
        boundary = ORDER[split] if split < len(ORDER) else None
        if set(new) <= before and set(old) <= after and (not bad or bad[0] == boundary) and (not bad or bad[0] not in old):
            if file_component is None or boundary is None or ORDER.index(file_component) in (split - 1, split) or boundary == file_component:
                return True
    return False


def make_run(cfg, batches, folder=None):
    cal = C.build(dict(cfg, saving_folder=None))
    with quiet():
        if batches:
            cal.calibrate(batches)
        if folder is not None:
            cal.create_checkpoint(str(folder))
    return cal


def prepare(cfg, prev_kind, new_batches, root):
    """Returns (prev folder or None, live calibrator in the 'new' state)."""
    P = root / "prev" / "F"
    other = dict(cfg, seed=cfg.get("seed", 0) + 31, lineup=[dict(s) for s in cfg["lineup"]])
    if prev_kind == "none":
        P = None
    elif prev_kind == "same-1":
        make_run(cfg, new_batches - 1, P)
    elif prev_kind == "same-2":
        make_run(cfg, max(0, new_batches - 2), P)
    elif prev_kind == "other-more":
        make_run(other, new_batches + 2, P)
    elif prev_kind == "other-same":
        make_run(other, new_batches, P)
    else:
        raise ValueError(prev_kind)
    live = make_run(cfg, new_batches)
    return P, live


def phase_of(log, n_ops, cut):
    """(file, phase) of a crash point."""
    if n_ops >= len(log):
        return log[-1]["file"].split("/")[-1], "complete"
    op = log[n_ops]
    name = op["file"].split("/")[-1]
    if cut is not None:
        return name, "partial"
    if op["op"] == "open":
        # nothing of this file done yet: the previous file is complete
        prev = log[n_ops - 1]["file"].split("/")[-1] if n_ops else "(nothing)"
        return prev, "complete" if n_ops else "not-started"
    if op["op"] == "write":
        first = not any(o["op"] == "write" and o["file"] == op["file"] for o in log[:n_ops])
        return name, "opened" if first else "partial"
    if op["op"] in ("truncate", "close"):
        return name, "written-not-closed"
    return name, "?"


def json_cell(cell):
    res = {"evaluations": 0, "nontrivial": 0, "states": 0, "transitions": 0, "traces": 0, "stats": {}, "outcomes": set(), "violations": [], "samples": []}
    cfg, prev_kind, nb = cell["cfg"], cell["prev"], cell["new_batches"]
    with C.scratch() as root:
        P, live = prepare(cfg, prev_kind, nb, root)
        W = root / "work"
        if P is not None:
            shutil.copytree(P.parent, W)
        else:
            W.mkdir()
        with R.recording(W) as log:
            with quiet():
                live.create_checkpoint(str(W / "F"))
        log = [dict(op, file=op["file"].split("/", 1)[-1] if op["file"].startswith("F/") else op["file"]) for op in log]
        new = components(C.restore(W / "F", cfg))
        old = components(C.restore(P, cfg)) if P is not None else None
        pts, capped = R.crash_points(log, dense_limit=cell.get("dense_limit", 4096), stride=cell.get("stride", 64))
        if capped:
            res["caps_hit"] = [f"writes longer than {cell.get('dense_limit', 4096)} bytes cut every {cell.get('stride', 64)}th byte"]
        part = cell.get("part", (0, 1))
        pts = pts[part[0]::part[1]]
        dest = root / "crash" / "F"
        for n_ops, cut in pts:
            R.materialise(P, log, n_ops, cut, dest)
            res["evaluations"] += 1
            res["transitions"] += 1
            res["traces"] += 1
            try:
                got = components(C.restore(dest, cfg))
                out = classify(got, old, new)
            except Exception as e:  # noqa: BLE001
                out = "error"
            f, ph = phase_of(log, n_ops, cut)
            res["outcomes"].add((f, ph, out if out in ("old", "new", "error") else "hybrid"))
            res["stats"]["restored_as_" + (out if out in ("old", "new", "error") else "hybrid")] = res["stats"].get("restored_as_" + (out if out in ("old", "new", "error") else "hybrid"), 0) + 1
            if out not in ("old", "new", "error"):
                res["nontrivial"] += 1
                key = f"json-backend:non-atomic:{f}:{ph}" if conforms(out, FILE_OF.get(f)) else f"json-backend:unexpected:{f}:{ph}:{out}"
                if sum(1 for x in res["violations"] if x["key"] == key) < 1:
                    res["violations"].append({"key": key, "what": f"[prev={prev_kind}] process death while {f} was {ph} (after {n_ops} file operations" + (f" + {cut} bytes" if cut else "") + f"): restore succeeds with {out}",
                                              "case": {"mode": "json", "cfg": cfg, "prev": prev_kind, "new_batches": nb, "n_ops": n_ops, "cut": cut}})
                else:
                    res["stats"]["dup:" + key] = res["stats"].get("dup:" + key, 0) + 1
        res["states"] = len(pts)
        res["samples"] = [{"prev": prev_kind, "log": [(o["file"], o["op"], o.get("offset"), len(o.get("data", b""))) for o in log[:8]]}]
    res["outcomes"] = sorted(res["outcomes"])
    return res


def json_replay(case):
    cfg = case["cfg"]
    with C.scratch() as root:
        P, live = prepare(cfg, case["prev"], case["new_batches"], root)
        W = root / "work"
        if P is not None:
            shutil.copytree(P.parent, W)
        else:
            W.mkdir()
        with R.recording(W) as log:
            with quiet():
                live.create_checkpoint(str(W / "F"))
        log = [dict(op, file=op["file"].split("/", 1)[-1] if op["file"].startswith("F/") else op["file"]) for op in log]
        new = components(C.restore(W / "F", cfg))
        old = components(C.restore(P, cfg)) if P is not None else None
        dest = root / "crash" / "F"
        R.materialise(P, log, case["n_ops"], case["cut"], dest)
        try:
            out = classify(components(C.restore(dest, cfg)), old, new)
        except Exception:  # noqa: BLE001
            out = "error"
        if out in ("old", "new", "error"):
            return []
        f, ph = phase_of(log, case["n_ops"], case["cut"])
        key = f"json-backend:non-atomic:{f}:{ph}" if conforms(out, FILE_OF.get(f)) else f"json-backend:unexpected:{f}:{ph}:{out}"
        return [{"key": key, "what": f"restore succeeds with {out}"}]


# ---------------------------------------------------------------------------------------------
class Injected(Exception):
    pass


def sqlite_comps(cal, big=False):
    series = cal.series_samp
    if big:
        rng = np.random.default_rng(5)
        # > 2 MB even after gzip; "huge": > 16 MiB (4096 database pages of 4 kB are freed when such a row is deleted)
        series = rng.random((len(cal.params_samp), cal.ensemble_size, 26000 if big is True else 140000, cal.D))
    return [cal.param_grid.parameters_bounds, cal.param_grid.parameters_precision, cal.real_data, cal.ensemble_size, cal.N, cal.D, cal.convergence_precision,
            cal.verbose, cal.saving_folder, cal.random_state, cal.random_generator.bit_generator.state, cal.model.__name__, cal.scheduler, cal.loss_function,
            cal.current_batch_index, cal.params_samp, cal.losses_samp, series, cal.batch_num_samp, cal.method_samp]


def _trace_factory(fname_suffix, on_line):
    def local(frame, event, arg):  # noqa: ARG001
        if event == "line":
            on_line(frame)
        return local

    def tracer(frame, event, arg):  # noqa: ARG001
        if event == "call" and frame.f_code.co_filename.endswith(fname_suffix):
            return local
        return None

    return tracer


def sqlite_cell(cell):
    from black_it.utils import sqlite3_checkpointing as sq

    res = {"evaluations": 0, "nontrivial": 0, "states": 0, "transitions": 0, "traces": 0, "stats": {}, "outcomes": set(), "violations": [], "samples": []}
    cfg, big = cell["cfg"], cell.get("big", False)
    old_cal = make_run(cfg, cell["old_batches"])
    # other_run: a different calibration in the same file (other seed); other_setup: SAME model name, seed and folder, different set-up
    new_cal = make_run(dict(cfg, seed=cfg.get("seed", 0) + (7 if cell.get("other_run") else 0), **cell.get("other_setup", {})), cell["new_batches"])
    old_c, new_c = sqlite_comps(old_cal, big), sqlite_comps(new_cal, big)
    old_k, new_k = canon(old_c), canon(new_c)

    def viol(key, what, case):
        if sum(1 for x in res["violations"] if x["key"] == key) < 1:
            res["violations"].append({"key": key, "what": what, "case": case})

    with C.scratch() as root:
        base = root / "base"
        with quiet():
            sq.save_calibrator_state(base, *old_c)
        # count the line events of one complete save
        count = [0]
        lines = []

        def counting(frame):
            count[0] += 1
            lines.append((frame.f_code.co_name, frame.f_lineno))

        w = root / "count"
        shutil.copytree(base, w)
        sys.settrace(_trace_factory("sqlite3_checkpointing.py", counting))
        try:
            with quiet():
                sq.save_calibrator_state(w, *new_c)
        finally:
            sys.settrace(None)
        total = count[0]
        res["stats"]["sqlite_line_events"] = total
        # the complete save on top of the previous checkpoint must load as exactly the new state (nothing of the old row survives)
        res["evaluations"] += 1
        try:
            with quiet():
                got = canon(list(sq.load_calibrator_state(w)))
            if got != new_k:
                viol("sqlite:complete-save-not-new", "a complete save on top of a previous checkpoint does not load as the new state", {"mode": "sqlite", "cfg": cfg, "old_batches": cell["old_batches"], "new_batches": cell["new_batches"], "big": big, "other_run": cell.get("other_run", False), "other_setup": cell.get("other_setup", {}), "k": -1})
            else:
                res["outcomes"].add(("sqlite-complete", "new"))
        except Exception as e:  # noqa: BLE001
            viol("sqlite:complete-save-not-loadable", f"{type(e).__name__}: {e}", {"mode": "sqlite", "cfg": cfg, "old_batches": cell["old_batches"], "new_batches": cell["new_batches"], "big": big, "other_run": cell.get("other_run", False), "other_setup": cell.get("other_setup", {}), "k": -1})
        shutil.rmtree(w, ignore_errors=True)
        for k in range(total):
            w = root / f"inj{k}"
            shutil.copytree(base, w)
            snaps = []
            seen = [0]

            def on_line(frame, k=k, w=w, snaps=snaps, seen=seen):
                i = seen[0]
                seen[0] += 1
                # crash snapshot before the i-th line executes
                if not big or i >= k - 1:
                    sd = root / f"snap{k}_{i}"
                    sd.mkdir()
                    for f in w.iterdir():
                        shutil.copy2(f, sd / f.name)
                    snaps.append((i, sd))
                if i == k:
                    raise Injected(f"line event {k} at {frame.f_code.co_name}:{frame.f_lineno}")

            caught = None
            sys.settrace(_trace_factory("sqlite3_checkpointing.py", on_line))
            try:
                with quiet():
                    sq.save_calibrator_state(w, *new_c)
            except Injected as e:
                caught = e
            except Exception as e:  # noqa: BLE001
                caught = e
            finally:
                sys.settrace(None)
            res["evaluations"] += 1
            res["traces"] += 1
            res["transitions"] += 1
            res["nontrivial"] += 1
            where = f"{lines[k][0]}:{lines[k][1]}" if k < len(lines) else "?"
            case = {"mode": "sqlite", "cfg": cfg, "old_batches": cell["old_batches"], "new_batches": cell["new_batches"], "big": big, "other_run": cell.get("other_run", False), "other_setup": cell.get("other_setup", {}), "k": k}
            # after a FAILED save: the previous checkpoint is still loadable and equals the old state (new if the fault came after the commit)
            try:
                with quiet():
                    got = canon(list(sq.load_calibrator_state(w)))
                if got == old_k:
                    res["outcomes"].add(("sqlite-exception", "old"))
                elif got == new_k:
                    res["outcomes"].add(("sqlite-exception", "new"))
                else:
                    viol("sqlite:failed-save-hybrid", f"after an exception at line event {k} ({where}) the database loads as neither the old nor the new checkpoint", case)
            except Exception as e:  # noqa: BLE001
                viol("sqlite:failed-save-destroys-previous", f"after an exception at line event {k} ({where}) the previous checkpoint can no longer be loaded: {type(e).__name__}: {e}", case)
            # crash (process death) at every line up to the injected one: error | old | new
            for i, sd in snaps:
                res["evaluations"] += 1
                try:
                    with quiet():
                        got = canon(list(sq.load_calibrator_state(sd)))
                    if got == old_k:
                        res["outcomes"].add(("sqlite-crash", "old"))
                        res["stats"]["sqlite_crash_old"] = res["stats"].get("sqlite_crash_old", 0) + 1
                    elif got == new_k:
                        res["outcomes"].add(("sqlite-crash", "new"))
                        res["stats"]["sqlite_crash_new"] = res["stats"].get("sqlite_crash_new", 0) + 1
                    else:
                        viol("sqlite:crash-hybrid", f"a process death before line event {i} leaves a database that loads as neither old nor new", dict(case, snap=i))
                except Exception as e:  # noqa: BLE001
                    # the transactional back-end: also a save cut short by a process death must leave the previous checkpoint loadable
                    # (SQLite rolls a hot journal back when the file is opened again)
                    res["outcomes"].add(("sqlite-crash", "error"))
                    res["stats"]["sqlite_crash_error"] = res["stats"].get("sqlite_crash_error", 0) + 1
                    viol("sqlite:crash-leaves-unloadable", f"a process death before line event {i} ({where}) leaves a database (+ journal) that cannot be loaded any more: {type(e).__name__}: {e}", dict(case, snap=i))
                shutil.rmtree(sd, ignore_errors=True)
            shutil.rmtree(w, ignore_errors=True)
        res["states"] = total
        res["samples"] = [{"sqlite_lines": lines[:6], "line_events": total, "big_state": big}]
    res["outcomes"] = sorted(res["outcomes"])
    return res


def json_exception_cell(cell):
    """An exception at every traced line of the JSON back-end's save: same error | old | new rule on the folder left behind."""
    res = {"evaluations": 0, "nontrivial": 0, "states": 0, "transitions": 0, "traces": 0, "stats": {}, "outcomes": set(), "violations": [], "samples": []}
    cfg, prev_kind, nb = cell["cfg"], cell["prev"], cell["new_batches"]
    with C.scratch() as root:
        P, live = prepare(cfg, prev_kind, nb, root)
        ref = root / "ref"
        shutil.copytree(P.parent, ref)
        with quiet():
            live.create_checkpoint(str(ref / "F"))
        new = components(C.restore(ref / "F", cfg))
        old = components(C.restore(P, cfg))
        truth = components(live)
        count = [0]
        sys.settrace(_trace_factory("json_pandas_checkpointing.py", lambda fr: count.__setitem__(0, count[0] + 1)))
        try:
            w0 = root / "cnt"
            shutil.copytree(P.parent, w0)
            with quiet():
                live.create_checkpoint(str(w0 / "F"))
        finally:
            sys.settrace(None)
        total = count[0]
        for k in range(total):
            w = root / f"e{k}"
            shutil.copytree(P.parent, w)
            seen = [0]
            where = [None]

            def on_line(frame, k=k, seen=seen, where=where):
                i = seen[0]
                seen[0] += 1
                if i == k:
                    where[0] = f"{frame.f_code.co_name}:{frame.f_lineno}"
                    raise Injected(f"line {k}")

            sys.settrace(_trace_factory("json_pandas_checkpointing.py", on_line))
            try:
                with quiet():
                    live.create_checkpoint(str(w / "F"))
            except Exception:  # noqa: BLE001
                pass
            finally:
                sys.settrace(None)
            res["evaluations"] += 1
            res["traces"] += 1
            try:
                out = classify(components(C.restore(w / "F", cfg)), old, new)
            except Exception:  # noqa: BLE001
                out = "error"
            res["outcomes"].add(("json-exception", out if out in ("old", "new", "error") else "hybrid"))
            if True:   # every injection point (a sampled subset hid one between the resize and the write of the series file)
                # the caller catches the error and simply repeats the call: a complete save, so the folder must restore as the new state
                try:
                    with quiet():
                        live.create_checkpoint(str(w / "F"))
                    got2 = components(C.restore(w / "F", cfg))
                    out2 = classify(got2, old, new)
                    if out2 != "new" and all(got2[c_] == truth[c_] for c_ in COMPONENTS):
                        out2 = "new"   # exactly the state of the live object (an implementation that rewrites a stale series file in full is right, too)
                except Exception as e2:  # noqa: BLE001
                    out2 = f"error:{type(e2).__name__}"
                res["evaluations"] += 1
                if out2 != "new":
                    key = "json-backend:retry-after-failed-save-not-new"
                    if sum(1 for x in res["violations"] if x["key"] == key) < 1:
                        res["violations"].append({"key": key, "what": f"[prev={prev_kind}] after an exception at line event {k} ({where[0]}) the same create_checkpoint() call was repeated and completed, but the folder restores as {out2}",
                                                  "case": {"mode": "json-exception", "cfg": cfg, "prev": prev_kind, "new_batches": nb, "k": k}})
            if out not in ("old", "new", "error"):
                res["nontrivial"] += 1
                key = f"json-backend:non-atomic:exception:{boundary(out)}" if conforms(out) else f"json-backend:unexpected:exception:{out}"
                if sum(1 for x in res["violations"] if x["key"] == key) < 1:
                    res["violations"].append({"key": key, "what": f"[prev={prev_kind}] an exception at line event {k} ({where[0]}) of the save leaves a folder that restores with {out}",
                                              "case": {"mode": "json-exception", "cfg": cfg, "prev": prev_kind, "new_batches": nb, "k": k}})
            shutil.rmtree(w, ignore_errors=True)
        # the environment answers "this object cannot be pickled" (it acquired a lambda / an open handle in mid-run): the save fails
        # INSIDE the serialisation of the scheduler or of the loss function, after calibration_params.json was rewritten
        for which in ("scheduler", "loss"):
            w = root / f"unp_{which}"
            shutil.copytree(P.parent, w)
            victim = copy.deepcopy(live)
            if which == "scheduler":
                victim.scheduler.samplers[0]._vf_handle = lambda: None  # noqa: SLF001
            else:
                victim.loss_function._vf_handle = lambda: None  # noqa: SLF001
            raised = None
            try:
                with quiet():
                    victim.create_checkpoint(str(w / "F"))
            except Exception as e:  # noqa: BLE001
                raised = e
            res["evaluations"] += 1
            res["traces"] += 1
            if raised is None:
                continue   # the back-end found a way to store it: nothing failed
            try:
                out = classify(components(C.restore(w / "F", cfg)), old, new)
            except Exception:  # noqa: BLE001
                out = "error"
            res["outcomes"].add(("json-unpicklable", out if out in ("old", "new", "error") else "hybrid"))
            if out not in ("old", "new", "error"):
                res["nontrivial"] += 1
                key = f"json-backend:non-atomic:unpicklable-{which}"
                if sum(1 for x in res["violations"] if x["key"] == key) < 1:
                    res["violations"].append({"key": key, "what": f"[prev={prev_kind}] a save that failed with {type(raised).__name__} while serialising the {which} leaves a folder that restores silently with {out}",
                                              "case": {"mode": "json-exception", "cfg": cfg, "prev": prev_kind, "new_batches": nb, "k": -1}})
        res["states"] = total
    res["outcomes"] = sorted(res["outcomes"])
    return res


def boundary(sig):
    """Last component (in write order) that a conforming hybrid holds in its NEW version: where the save was cut."""
    parts = dict(p.split("=") for p in sig.split(";"))
    new = parts.get("new", "").split("+") if parts.get("new") else []
    last = max((ORDER.index(c) for c in new), default=-1)
    return "after=" + (ORDER[last] if last >= 0 else "nothing")


def run_cell(cell):
    return {"json": json_cell, "sqlite": sqlite_cell, "json-exception": json_exception_cell}[cell["kind"]](cell)


def replay_case(case):
    if case["mode"] == "json":
        return json_replay(case)
    if case["mode"] == "sqlite":
        r = sqlite_cell({"cfg": case["cfg"], "old_batches": case["old_batches"], "new_batches": case["new_batches"], "big": case.get("big", False), "other_run": case.get("other_run", False), "other_setup": case.get("other_setup", {})})
    else:
        r = json_exception_cell({"cfg": case["cfg"], "prev": case["prev"], "new_batches": case["new_batches"]})
    return [{"key": v["key"], "what": v["what"]} for v in r["violations"]]


def main(ctx):
    S = ctx.seed
    cfgs = [
        {"lineup": [{"cls": "Halton", "bs": 2}, {"cls": "RandomUniform", "bs": 2}], "seed": S, "dims": 2, "model": "gauss2", "ensemble": 2},
        {"lineup": [{"cls": "Halton", "bs": 3}, {"cls": "BestBatch", "bs": 2}], "seed": S + 1, "dims": 1, "model": "gauss2", "ensemble": 2},
    ]
    cells = []
    parts = 4 if ctx.quick else 8
    for ci, cfg in enumerate(cfgs):
        for prev in ("none", "same-1", "same-2", "other-more", "other-same"):
            for nb in ((2,) if ctx.quick else (2, 3)):
                for p in range(parts):
                    cells.append({"kind": "json", "cfg": cfg, "prev": prev, "new_batches": nb + ci, "part": (p, parts), "stride": 64 if ctx.quick else 1, "dense_limit": 4096 if ctx.quick else 10**9})
        for prev in ("same-1", "other-more"):
            cells.append({"kind": "json-exception", "cfg": cfg, "prev": prev, "new_batches": 2})
        cells.append({"kind": "sqlite", "cfg": cfg, "old_batches": 1, "new_batches": 2})
        cells.append({"kind": "sqlite", "cfg": cfg, "old_batches": 2, "new_batches": 2, "other_run": True})
        cells.append({"kind": "sqlite", "cfg": cfg, "old_batches": 3, "new_batches": 1, "other_setup": {"ensemble": 3, "precision": 0.1, "T": 11, "upper": 2.0}})
    cells.append({"kind": "sqlite", "cfg": cfgs[0], "old_batches": 1, "new_batches": 2, "big": True})
    cells.append({"kind": "sqlite", "cfg": cfgs[0], "old_batches": 2, "new_batches": 3, "big": "huge"})
    cells.sort(key=lambda c: 0 if c["kind"] == "sqlite" and c.get("big") else 1)
    ctx.bounds = {"configurations": 2, "previous_checkpoint_kinds": ["none", "same-1", "same-2", "other-more", "other-same"], "json": "every operation boundary and byte cut of the recorded write log",
                  "sqlite": "exception and crash snapshot at every traced line of save_calibrator_state and its adapters; small states, one > 2 MB state and one > 16 MiB state; a different calibration with the same model name, seed and folder on top"}
    ctx.rule = "evaluations = crash states / fault positions restored and classified; non-trivial = crash states that restore silently as a hybrid (JSON) / fault positions (SQLite)"
    ctx.assumptions = ["process-death crash model: completed writes persist in order; power-loss reordering and SQLite page atomicity are not modelled",
                       "'new' is what restoring the completely written folder gives (its correctness is C04's subject)"]
    ctx.pmap("vf.checks.c06:run_cell", cells)
    kinds = {o[-1] for o in ctx.outcomes}
    ctx.require({"old", "new", "error"} <= kinds, f"crash states did not restore as old, new and error: {kinds}")
    ctx.require(ctx.stats.get("sqlite_line_events", 0) >= 20, "too few SQLite line events traced")
