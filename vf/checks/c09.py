"""C09 - samplers are scheduled exactly as the chosen scheduler prescribes (E2, E1 for RL).

Round-robin : line-ups of 1-6 sampler objects (six distinct class names, repeated classes included), batch sizes by
              position; every history over {calibrate(1), calibrate(2), restore} up to a depth bound with a saving folder;
              observed through logged scheduler designations and sample() calls and through method_samp/batch_num_samp:
              lifetime batch i is produced by sampler i mod n and contributes that sampler's batch_size rows.
RL          : sampler sets with and without Halton, every scripted action sequence of length <= 3, eps-greedy agents,
              1-2 sessions, loss scripts incl. a best loss of exactly 0: first batch by Halton (member, else appended
              last), later batches by samplers[action], in every interleaving (modulo commutation of independent steps).
              Further histories replace the line-up in mid-calibration (Calibrator.set_samplers with a longer / shorter list, on a
              live or restored object): batch i then comes from sampler i mod n of the list in force.
Constructor : all four samplers/scheduler presence combinations.
"""
from __future__ import annotations

import itertools

import numpy as np

from vf.core import quiet
from vf.opseq import cal as C
from vf.sched import explore as ex
from vf.sched import rl_harness as rh

ID = "C09"
TITLE = "Samplers are scheduled exactly as the chosen scheduler prescribes"
NAMES6 = ["Halton", "RandomUniform", "RSequence", "HaltonB", "RandomUniformB", "RSequenceB"]


def run_history(cfg, ops):
    """ops over 'c1','c2','r' and 's<k>' (Calibrator.set_samplers with cfg['alt_lineups'][k]: from then on batch i is produced by
    sampler i mod n of the list in force). Returns violations [(key, what)] and a signature."""
    v = []
    lineup = cfg["lineup"]
    in_force, saved = lineup, lineup   # the list the live object holds / the list inside the last checkpoint
    per_batch = []
    with C.scratch() as folder:
        cfg2 = dict(cfg, saving_folder=str(folder / "ckpt"))
        samplers = None
        if cfg.get("edit_list"):
            samplers = [C.make_sampler(s_) for s_ in lineup]   # the caller keeps this very list object and edits it later (op 'e')
        if cfg.get("same_instance"):
            # the line-up lists the SAME sampler object more than once (cfg['same_instance'] maps a position to the position whose object it reuses)
            samplers = [C.make_sampler(s_) for s_ in lineup]
            for pos, src in cfg["same_instance"].items():
                samplers[int(pos)] = samplers[int(src)]
        try:
            cal = C.build(cfg2, samplers=samplers)
        except ValueError:
            if cfg.get("same_instance"):
                return [], ("rejected-repeated-instance",)   # listing one object twice refused outright: nothing scheduled, nothing to judge
            raise
        rec = C.Recorder()
        with rec:
            for op in ops:
                if op == "r":
                    if cal.current_batch_index == 0:
                        continue
                    cal = C.restore(folder / "ckpt", cfg2)
                    in_force = saved
                    del per_batch[cal.current_batch_index:]
                elif op[0] == "e":
                    # the caller re-uses HIS list to prepare something else (appends / reverses it): the calibrator's line-up is the one it
                    # was given at construction, a later edit of the caller's list is none of its business
                    if op == "e0":
                        samplers.append(C.make_sampler({"cls": "RSequenceB", "bs": 3}))
                    else:
                        samplers.reverse()
                elif op[0] == "s":
                    in_force = cfg["alt_lineups"][int(op[1])]
                    cal.set_samplers([C.make_sampler(s_) for s_ in in_force])
                else:
                    before = cal.current_batch_index
                    try:
                        with quiet():
                            cal.calibrate(int(op[1]))
                    except Exception as e:  # noqa: BLE001
                        return [("rr-calibrate-raises", f"ops={ops}: calibrate({op[1]}) raised {type(e).__name__}: {e}")], None
                    # (with a convergence precision a call may stop early: count the batches it really ran)
                    per_batch += [in_force] * (cal.current_batch_index - before)
                    saved = in_force
        nb = cal.current_batch_index
        if len(rec.sched_calls) != nb or len(rec.sample_calls) != nb or len(per_batch) != nb:
            v.append(("rr-call-count", f"{nb} batches, {len(rec.sched_calls)} designations, {len(rec.sample_calls)} sample() calls"))
            return v, None
        for i in range(nb):
            d, s = rec.sched_calls[i], rec.sample_calls[i]
            n = len(per_batch[i])
            exp = per_batch[i][i % n]
            if cfg.get("same_instance") and d["index"] != i % n:
                # one object sits at several positions: "the first position holding this object" is not the position that was served;
                # judge by the object's position class instead (same object <=> same representative position)
                rep = {int(k): int(v_) for k, v_ in cfg["same_instance"].items()}
                if rep.get(i % n, i % n) == d["index"]:
                    d = dict(d, index=i % n)
            if d["index"] != i % n:
                v.append(("rr-wrong-sampler", f"ops={ops}: lifetime batch {i} was produced by sampler #{d['index']} ({d['cls']}), round-robin prescribes #{i % n} ({exp['cls']})"))
                break
            if d["obj"] != s["obj"]:
                v.append(("rr-designated-not-used", f"batch {i}: designated {d['cls']} but {s['cls']} sampled"))
                break
            rows = int(np.sum(cal.batch_num_samp == i))
            if rows != exp["bs"] or len(s["out"]) != exp["bs"]:
                v.append(("rr-batch-size", f"ops={ops}: batch {i} contributed {rows} rows, sampler #{i % n} has batch_size {exp['bs']}"))
                break
            ids = set(cal.method_samp[cal.batch_num_samp == i].tolist())
            if any(o[0] in "se" for o in ops):
                continue   # with a replaced line-up a restored object rebuilds its id table from the list in force (C18's known finding): labels are C18's subject
            if ids != {cal.samplers_id_table[C.sampler_class(exp["cls"]).__name__]}:
                v.append(("rr-label", f"ops={ops}: batch {i} labelled {ids}, sampler class {exp['cls']} has id {cal.samplers_id_table[C.sampler_class(exp['cls']).__name__]}"))
                break
        sig = (nb, tuple(d["index"] for d in rec.sched_calls))
    return v, sig


def rr_cell(cell):
    res = {"evaluations": 0, "nontrivial": 0, "states": 0, "transitions": 0, "traces": 0, "stats": {}, "outcomes": set(), "violations": [], "samples": []}
    cfg = cell["cfg"]
    states = set()
    for ops in cell["histories"]:
        vs, sig = run_history(cfg, ops)
        res["evaluations"] += 1
        res["traces"] += 1
        res["transitions"] += len(ops)
        if "r" in ops[1:] or len([o for o in ops if o != "r"]) > 1:
            res["nontrivial"] += 1
        states.add(sig)
        for key, what in vs:
            if sum(1 for x in res["violations"] if x["key"] == key) < 1:
                res["violations"].append({"key": key, "what": f"[{'+'.join(s['cls'] + str(s['bs']) for s in cfg['lineup'])}] {what}", "case": {"mode": "rr", "cfg": cfg, "ops": list(ops)}})
    res["states"] = len(states)
    res["outcomes"] = [("rr", len(cfg["lineup"]))]
    res["samples"] = [{"lineup": [s["cls"] for s in cfg["lineup"]], "ops": list(cell["histories"][-1])}]
    return res


def rl_cell(cell):
    res = {"evaluations": 0, "nontrivial": 0, "states": 0, "transitions": 0, "traces": 0, "stats": {}, "outcomes": set(), "violations": [], "samples": []}
    cfg = cell["cfg"]
    outs = set()
    for prefix, ctl, obs in ex.explore_por(lambda p, sl: rh.run_protocol(cfg, p, mode="sync", sleep_at=sl), max_execs=5000):
        res["evaluations"] += 1
        res["traces"] += 1
        res["transitions"] += ctl.n_points
        res["nontrivial"] += 1
        vs = [(k, w) for k, w in rh.monitor(obs) if k in ("bootstrap-not-halton", "sampler-not-chosen-by-agent", "deadlock", "exception-in-calibration-thread", "exception-in-agent-thread")]
        # the sampler tuple is the supplied one (plus a Halton appended last when absent)
        supplied = rh.make_samplers(cfg["samplers"])
        has = any(type(s).__name__ == "HaltonSampler" for s in supplied)
        if obs["n_samplers"] != len(supplied) + (0 if has else 1):
            vs.append(("rl-sampler-set", f"{obs['n_samplers']} samplers scheduled for {len(supplied)} supplied (Halton present: {has})"))
        if has and obs["halton_id"] != [type(s).__name__ for s in supplied].index("HaltonSampler"):
            vs.append(("rl-bootstrap-not-the-member", f"bootstrap index {obs['halton_id']} is not the supplied Halton sampler"))
        if not has and obs["halton_id"] != len(supplied):
            vs.append(("rl-bootstrap-not-appended", f"bootstrap index {obs['halton_id']}, expected the appended Halton at {len(supplied)}"))
        if any((not isinstance(s, tuple)) and not (0 <= s < obs["n_samplers"]) for s in obs["samplers"]):
            vs.append(("rl-sampler-outside-set", f"samplers used {obs['samplers']}"))
        # every executed agent-chosen batch corresponds to its own, later choice of the agent: the executed samplers are a subsequence
        # of the agent's choices in order. (A choice that was never executed - proposed just before a session ended or before a batch
        # failed - may be dropped or kept for the next session: the property does not say; whether a split run equals the unsplit one is C05.)
        pols = [e[1] for e in obs["log"] if e[0] == "policy"]
        ran = [s for s in obs["samplers"] if not isinstance(s, tuple)][1:]
        it = iter(pols)
        if not vs and not all(any(p_ == s for p_ in it) for s in ran):
            vs.append(("rl-choice-skipped", f"batches ran {ran}: not the agent's choices {pols} taken in order (one choice served two batches, or a batch ran a sampler the agent had not chosen for it)"))
        outs.add(tuple(map(repr, obs["samplers"])))
        for key, what in vs:
            if sum(1 for x in res["violations"] if x["key"] == key) < 1:
                res["violations"].append({"key": key, "what": f"{what} [cfg={cfg}]", "case": {"mode": "rl", "cfg": cfg, "schedule": list(ctl.choices)}})
    res["states"] = len(outs)
    res["outcomes"] = [("rl", cfg["samplers"], len(outs))]
    return res


def ctor_cell(cell):
    from black_it.calibrator import Calibrator
    from black_it.schedulers.round_robin import RoundRobinScheduler

    res = {"evaluations": 0, "nontrivial": 0, "states": 4, "transitions": 4, "traces": 4, "stats": {}, "outcomes": set(), "violations": [], "samples": []}
    for with_s, with_sch in itertools.product((False, True), repeat=2):
        samplers = [C.make_sampler({"cls": "Halton", "bs": 1})]
        kw = {}
        if with_s:
            kw["samplers"] = samplers
        if with_sch:
            kw["scheduler"] = RoundRobinScheduler([C.make_sampler({"cls": "RandomUniform", "bs": 1})])
        err = None
        try:
            with quiet():
                Calibrator(loss_function=C.make_loss("minkowski"), real_data=C.real_data({}), model=C.models.gauss2,
                           parameters_bounds=[[0, 0], [1, 1]], parameters_precision=[0.1, 0.1], ensemble_size=1, **kw)
        except Exception as e:  # noqa: BLE001
            err = e
        res["evaluations"] += 1
        res["nontrivial"] += 1
        exactly_one = with_s != with_sch
        if exactly_one and err is not None:
            res["violations"].append({"key": "ctor-rejects-valid", "what": f"samplers={with_s} scheduler={with_sch}: raised {type(err).__name__}: {err}", "case": {"mode": "ctor"}})
        if not exactly_one and not isinstance(err, ValueError):
            res["violations"].append({"key": "ctor-accepts:" + ("both" if with_s else "neither"),
                                      "what": f"samplers={with_s} scheduler={with_sch}: {'accepted' if err is None else 'raised ' + type(err).__name__}, expected ValueError", "case": {"mode": "ctor"}})
        res["outcomes"].add((with_s, with_sch, type(err).__name__))
    res["outcomes"] = sorted(res["outcomes"])
    return res


def run_cell(cell):
    return {"rr": rr_cell, "rl": rl_cell, "ctor": ctor_cell}[cell["kind"]](cell)


def replay_case(case):
    if case["mode"] == "rr":
        vs, _ = run_history(case["cfg"], case["ops"])
        return [{"key": k, "what": w} for k, w in vs]
    if case["mode"] == "rl":
        r = rl_cell({"cfg": case["cfg"], "bound": 1})
        return [{"key": v["key"], "what": v["what"]} for v in r["violations"]]
    r = ctor_cell({})
    return [{"key": v["key"], "what": v["what"]} for v in r["violations"]]


def _histories(depth):
    out = []
    for d in range(1, depth + 1):
        for ops in itertools.product(("c1", "c2", "r"), repeat=d):
            if ops[0] == "r" or any(a == "r" and b == "r" for a, b in zip(ops, ops[1:])):
                continue
            if ops[-1] == "r":
                continue  # nothing observed after a final restore
            out.append(list(ops))
    # keep maximal histories only (prefixes are covered: the invariant is over the whole life)
    keep = [h for h in out if len(h) == depth or (len([o for o in h if o != "r"]) >= 1 and len(h) >= depth - 1)]
    return keep


def main(ctx):
    S = ctx.seed
    cells = [{"kind": "ctor"}]
    depth = 4 if ctx.quick else 6
    hist = _histories(depth)
    for n in range(1, 7):
        names = NAMES6[:n]
        variants = [names, names[::-1]] if n > 1 else [names]
        if n >= 2:
            variants.append([names[0]] * (n - 1) + [names[1]])  # repeated classes as separate objects
        for vi, lu in enumerate(variants):
            lineup = [{"cls": c, "bs": 1 + (i + vi + S) % 3} for i, c in enumerate(lu)]
            hs = hist if (ctx.quick and n in (2, 3, 5)) or not ctx.quick else hist[:: 3]
            for k in range(0, len(hs), 12):
                cells.append({"kind": "rr", "cfg": {"lineup": lineup, "seed": S, "dims": 2, "model": "const2", "ensemble": 1}, "histories": hs[k:k + 12]})
    # the line-up replaced in mid-calibration (set_samplers) by a longer / shorter one, on a live or a restored object
    base = [{"cls": "Halton", "bs": 1}, {"cls": "RandomUniform", "bs": 2}]
    alts = [[{"cls": "RSequence", "bs": 3}, {"cls": "HaltonB", "bs": 1}, {"cls": "RandomUniformB", "bs": 2}], [{"cls": "RSequenceB", "bs": 2}],
            [{"cls": "RandomUniform", "bs": 1}, {"cls": "Halton", "bs": 3}, {"cls": "Halton", "bs": 2}, {"cls": "RSequence", "bs": 1}]]
    sh = [list(h) for L_ in range(2, (5 if ctx.quick else 6) + 1) for h in itertools.product(("c1", "c2", "r", "s0", "s1", "s2"), repeat=L_)
          if h[0][0] == "c" and h[-1][0] == "c" and sum(o[0] == "s" for o in h) in (1, 2) and not any(a[0] == "s" and b[0] == "s" for a, b in zip(h, h[1:]))]
    for k in range(0, len(sh), 40):
        cells.append({"kind": "rr", "cfg": {"lineup": base, "alt_lineups": alts, "seed": S, "dims": 2, "model": "const2", "ensemble": 1}, "histories": sh[k:k + 40]})
    # calls that end through the early stop (the loss is exactly 0 from the first batch on: every call runs one batch), then go on
    conv = [list(h) for L_ in range(2, 6) for h in itertools.product(("c1", "c2", "r"), repeat=L_) if h[0] != "r" and h[-1] != "r" and not any(a == "r" and b == "r" for a, b in zip(h, h[1:]))]
    for lu in ([{"cls": "Halton", "bs": 1}, {"cls": "RandomUniform", "bs": 2}, {"cls": "RSequence", "bs": 1}], [{"cls": "RandomUniform", "bs": 2}, {"cls": "Halton", "bs": 1}]):
        for k in range(0, len(conv), 60):
            cells.append({"kind": "rr", "cfg": {"lineup": lu, "seed": S, "dims": 2, "model": "const2", "real_const": 0.25, "convergence_precision": 0, "ensemble": 1}, "histories": conv[k:k + 60]})
    # the caller edits the list object he passed at construction
    eh = [list(h) for L_ in range(2, 5) for h in itertools.product(("c1", "c2", "r", "e0", "e1"), repeat=L_) if h[0][0] == "c" and h[-1][0] == "c" and sum(o[0] == "e" for o in h) == 1]
    cells.append({"kind": "rr", "cfg": {"lineup": [{"cls": "Halton", "bs": 2}, {"cls": "RandomUniform", "bs": 3}], "edit_list": True, "seed": S, "dims": 2, "model": "const2", "ensemble": 1}, "histories": eh})
    # the same sampler OBJECT listed at several positions (a double share of the batches)
    for lu, same in (([{"cls": "Halton", "bs": 2}, {"cls": "RandomUniform", "bs": 1}, {"cls": "RandomUniform", "bs": 1}], {"2": 1}),
                     ([{"cls": "RSequence", "bs": 1}, {"cls": "Halton", "bs": 3}, {"cls": "RSequence", "bs": 1}, {"cls": "Halton", "bs": 3}], {"2": 0, "3": 1})):
        cells.append({"kind": "rr", "cfg": {"lineup": lu, "same_instance": same, "seed": S, "dims": 2, "model": "const2", "ensemble": 1}, "histories": hist[::2]})
    eight = [{"cls": NAMES6[i % 6], "bs": 1 + i % 3} for i in range(8)]
    cells.append({"kind": "rr", "cfg": {"lineup": eight, "seed": S, "dims": 2, "model": "const2", "ensemble": 1}, "histories": [["c2"] * 10, ["c1", "c2", "r", "c2", "c2", "r", "c1", "c2", "c2", "c2", "r", "c2", "c2"], ["c2", "c2", "c2", "r"] + ["c1"] * 11]})
    shapes = [[1], [2], [3], [1, 2], [2, 2]] if ctx.quick else [[1], [2], [3], [1, 1], [1, 2], [2, 1], [2, 2], [3, 3], [1, 1, 2]]
    for samplers in ("with_halton", "halton_first", "without_halton", "three"):
        nact = 2 if samplers in ("with_halton", "halton_first") else 3
        agents = [{"kind": "scripted", "script": list(sc)} for L in (1, 2, 3) for sc in itertools.product(range(nact), repeat=L)]
        agents += [{"kind": "eps", "eps": e, "seed": sd, "alpha": -1} for e in (0.0, 0.5, 1.0) for sd in (S, S + 1)]
        for shape in shapes:
            for ai, agent in enumerate(agents):
                if ctx.quick and agent["kind"] == "scripted" and len(agent["script"]) == 3 and sum(shape) < 3:
                    continue
                for losses, l0 in (("mixed", 10.0), ("to_zero", 5.0), ("never", 0.0)):
                    if (ai + len(shape)) % 3 != ("mixed", "to_zero", "never").index(losses) and ctx.quick:
                        continue
                    cells.append({"kind": "rl", "bound": 1, "cfg": {"shape": shape, "losses": losses, "l0": l0, "agent": agent, "samplers": samplers}})
    # a new scheduler built on an agent / environment pair that has already driven a calibration (its reference best loss is set)
    for samplers in ("with_halton", "halton_first", "without_halton", "three"):
        for shape in ([2], [1, 2], [3]):
            for used in (2.5, 0.0, 100.0):
                for script in ([1, 0, 1], [0, 0], [1]):
                    cells.append({"kind": "rl", "cfg": {"shape": shape, "losses": "mixed", "l0": 10.0, "agent": {"kind": "scripted", "script": script}, "samplers": samplers, "used_env": used}})
    # a failing batch under the RL scheduler, then further sessions: the retry and every later batch still follow the agent's choices
    for samplers in ("with_halton", "three"):
        for shape in ([2, 2], [3, 2]) if ctx.quick else ([2, 2], [3, 2], [1, 3], [2, 2, 2]):
            for si in range(len(shape) - 1):
                for bi in range(shape[si]):
                    for where in ("before_get", "after_get"):
                        for script in ([1, 0, 0, 1], [0, 1], [2, 1, 0]):
                            cells.append({"kind": "rl", "cfg": {"shape": shape, "losses": "mixed", "l0": 10.0, "agent": {"kind": "scripted", "script": script}, "samplers": samplers,
                                                                 "fault": {"session": si, "batch": bi, "where": where}}})
    ctx.bounds = {"round_robin": f"line-ups of 1..6 objects over {NAMES6} (in order, reversed, repeated class), batch sizes 1..3 by position; histories over c1,c2,restore of depth {depth}",
                  "rl": {"sampler_sets": ["with_halton", "halton_first", "without_halton", "three"], "shapes": shapes, "agents": "all scripted sequences of length <= 3 + eps-greedy eps {0,.5,1} seeds {S,S+1}",
                         "loss_scripts": ["mixed", "to_zero (best loss becomes exactly 0)", "never with bootstrap loss 0"], "schedules": "all interleavings modulo independence (sleep sets)"}, "cells": len(cells)}
    ctx.rule = "every history / every agent script within the bounds; non-trivial = history with a second call or a restore, or any RL execution"
    ctx.assumptions = ["RL + restore is unreachable (RLScheduler is not picklable; C04 known finding)"]
    cells.sort(key=lambda c: 0 if c["kind"] == "rr" else 1)
    ctx.pmap("vf.checks.c09:run_cell", cells, chunksize=2)
    ctx.require(ctx.evaluations > 1000, "too few histories")
