"""C05 - resuming from a checkpoint equals never having stopped (E2, differential).

For every configuration of the line-up lattice and n batches: ALL 3^(n-1) cut patterns, each of the n-1 boundaries being
'n' (same calibrate() call), 'p' (a plain second call) or 'r' (checkpoint -> fresh object restored from disk); some cells add
'x' (restore, run a batch on a throw-away object that does not touch the folder, restore again). After every
observable boundary k the canonical calibrator state (history AND hidden state: generators, cursors, swarm, scheduler
position) must equal the state of an uninterrupted twin after calibrate(k). The explored graph must collapse to one state
per depth.
"""
from __future__ import annotations

import itertools

from vf.canon import diff
from vf.core import quiet
from vf.opseq import cal as C

ID = "C05"
TITLE = "Resuming from a checkpoint equals never having stopped"


def segments(pattern):
    """pattern over 'n','p','r' of length n-1 -> list of (segment length, boundary kind after it or None)."""
    out, cur = [], 1
    for b in pattern:
        if b == "n":
            cur += 1
        else:
            out.append((cur, b))
            cur = 1
    out.append((cur, None))
    return out


LOOKAHEAD = 4


def reference_states(cfg, n, ks=None):
    ref = {}
    for k in (range(1, n + 1) if ks is None else ks):
        with C.scratch() as tmp:
            cal = C.build(dict(cfg, saving_folder=str(tmp / "ck")) if cfg.get("use_folder", True) else cfg)
            try:
                with quiet():
                    cal.calibrate(k)
            except TypeError as e:
                if "pickle" in str(e) and cfg.get("scheduler", "rr") != "rr":
                    ref[k] = (None, None)  # RL scheduler + saving folder: reported by run_path as the known finding
                    continue
                raise
            ref[k] = (C.state(cal), C.history_canon(cal))
    return ref


def run_path(cfg, pattern, ref):
    """Returns [(key, what)] and the set of (k, state digest) reached."""
    v = []
    reached = set()
    hidden = []
    use_folder = cfg.get("use_folder", True)
    manual = cfg.get("manual_ckpt", False)   # no saving folder: checkpoints are written by hand, only where the run is cut
    with C.scratch() as tmp:
        folder = tmp / "ck"
        cal = C.build(dict(cfg, saving_folder=str(folder)) if use_folder and not manual else cfg)
        k = 0
        for seg, boundary in segments(pattern):
            try:
                with quiet():
                    cal.calibrate(seg)
            except TypeError as e:
                if "pickle" in str(e) and cfg.get("scheduler", "rr") != "rr":
                    return [("rl-scheduler-unpicklable", f"RL scheduler with a saving folder: calibrate() raised TypeError({e})")], reached
                raise
            k += seg
            st = C.state(cal)
            reached.add((k, hash(st)))
            if st != ref[k][0] and C.history_canon(cal) == ref[k][1]:
                # the HISTORY is the uninterrupted one, only hidden state differs: the property speaks about the history, so the
                # verdict is left to what the histories do from here on (this path and, at its end, LOOKAHEAD further batches)
                hidden.append((k, diff(ref[k][0], st)[:2]))
            elif st != ref[k][0]:
                nxt = cfg["lineup"][k % len(cfg["lineup"])]["cls"] if cfg.get("scheduler", "rr") == "rr" else "rl"
                d = diff(ref[k][0], st)
                comp = d[0].split(":")[0] if d else "?"
                v.append((f"diverged-after-{'+'.join(sorted(set(pattern[:k - 1]) - {'n'})) or 'plain'}",
                          f"pattern {''.join(pattern)}: state after batch {k} differs from the uninterrupted run (next sampler {nxt}); first differences: {d[:3]}"))
                return v, reached
            if manual and boundary in ("r", "x"):
                with quiet():
                    cal.create_checkpoint(str(folder))
            if boundary == "x":
                # retry workflow: a first restored object runs a batch WITHOUT touching the folder and is thrown away,
                # then the run is restored again from the same, unchanged checkpoint
                throwaway = C.restore(folder, cfg)
                throwaway.saving_folder = None
                with quiet():
                    throwaway.calibrate(1)
            if boundary in ("r", "x"):
                cal = C.restore(folder, cfg)
                if manual:
                    cal.saving_folder = None
                st2 = C.state(cal)
                if st2 != ref[k][0] and C.history_canon(cal) == ref[k][1]:
                    hidden.append((k, diff(ref[k][0], st2)[:2]))
                elif st2 != ref[k][0]:
                    d = diff(ref[k][0], st2)
                    v.append(("restored-state-differs", f"pattern {''.join(pattern)}: state restored after batch {k} differs from the uninterrupted run: {d[:3]}"))
                    return v, reached
        if hidden and not v:
            # hidden state differed somewhere although every history so far was right: do the futures differ?
            n = k
            with C.scratch() as tmp2:
                twin = C.build(dict(cfg, saving_folder=str(tmp2 / "ck")) if use_folder and not manual else cfg)
                try:
                    with quiet():
                        twin.calibrate(n + LOOKAHEAD)
                        cal.calibrate(LOOKAHEAD)
                    same = C.history_canon(cal) == C.history_canon(twin)
                except Exception as e:  # noqa: BLE001
                    same = False
                    hidden.append(("continuing raised", f"{type(e).__name__}: {e}"))
            if not same:
                k0, d0 = hidden[0]
                v.append((f"diverged-after-{'+'.join(sorted(set(pattern) - {'n'})) or 'plain'}",
                          f"pattern {''.join(pattern)}: hidden state differs from the uninterrupted run after batch {k0} ({d0}) and the histories part within {LOOKAHEAD} further batches"))
            else:
                reached.add(("hidden-state-differs-history-equal", k))
    return v, reached


def replaced_cell(cell):
    """The order of public calls: calibrate(k); set_scheduler(S2) or set_samplers(L2); [checkpoint, restore]; calibrate(m). Whatever the
    replacement makes pending on the live object must survive a checkpoint taken right after it."""
    from black_it.schedulers.round_robin import RoundRobinScheduler

    res = {"evaluations": 0, "nontrivial": 0, "states": 0, "transitions": 0, "traces": 0, "stats": {}, "outcomes": set(), "violations": [], "samples": []}
    cfg = cell["cfg"]
    for how in ("set_scheduler", "set_samplers"):
        for k in (1, 2, 3):
            for m in (2, 3):
                for cycles in (1, 2):
                    def replace(cal):
                        new = [C.make_sampler(dict(s_, seed=11 + i_)) for i_, s_ in enumerate(cell["lineup2"])]   # (seeded: replacements are not reseeded by the calibrator)
                        if how == "set_scheduler":
                            cal.set_scheduler(RoundRobinScheduler(new, random_state=7))
                        else:
                            cal.set_samplers(new)

                    live = C.build(cfg)
                    with quiet():
                        live.calibrate(k)
                    replace(live)
                    with quiet():
                        live.calibrate(m)
                    with C.scratch() as tmp:
                        cut = C.build(cfg)
                        with quiet():
                            cut.calibrate(k)
                        replace(cut)
                        for _ in range(cycles):
                            with quiet():
                                cut.create_checkpoint(str(tmp / "ck"))
                            cut = C.restore(tmp / "ck", cfg)
                            cut.saving_folder = None
                        with quiet():
                            cut.calibrate(m)
                    res["evaluations"] += 1
                    res["traces"] += 1
                    res["transitions"] += k + m
                    res["nontrivial"] += 1
                    def hist(c_):   # the labels in method_samp are C18's subject (its known finding: the id table is rebuilt on restore)
                        from vf.canon import canon as _canon

                        return _canon({k_: getattr(c_, k_) for k_ in C.HIST if k_ != "method_samp"} | {"n": c_.n_sampled_params, "b": c_.current_batch_index})

                    if hist(cut) != hist(live):
                        key = f"diverged-after-{how}+r"
                        if sum(1 for x in res["violations"] if x["key"] == key) < 1:
                            res["violations"].append({"key": key, "what": f"calibrate({k}); {how}(...); {cycles} x (create_checkpoint; restore); calibrate({m}) gives another history than the same calls without the checkpoint/restore: "
                                                      f"{diff(hist(live), hist(cut))[:3]}", "case": {"cfg": cfg, "lineup2": cell["lineup2"], "mode": "replaced"}})
    res["states"] = res["evaluations"]
    res["outcomes"] = [("replaced", True)]
    return res


def run_cell(cell):
    if cell.get("kind") == "replaced":
        return replaced_cell(cell)
    res = {"evaluations": 0, "nontrivial": 0, "states": 0, "transitions": 0, "traces": 0, "stats": {}, "outcomes": set(), "violations": [], "samples": []}
    cfg, n = cell["cfg"], cell["n"]
    ks = None
    if cell.get("patterns"):
        # only the batch counts at which the listed patterns compare states
        ks = sorted({k for pat in cell["patterns"] for k in itertools.accumulate(seg for seg, _ in segments(list(pat)))})
    ref = reference_states(cfg, n, ks)
    res["transitions"] += n * (n + 1) // 2 if ks is None else sum(ks)
    # the uninterrupted runs themselves must be prefixes of each other (batch for batch)
    allr = set()
    symbols = cell.get("symbols", "npr")
    patterns = itertools.product(symbols, repeat=n - 1)
    if cell.get("single_cut"):
        # one boundary of each kind at every position (the other boundaries inside the same call) + everything cut
        patterns = [tuple(k if j == i else "n" for j in range(n - 1)) for i in range(n - 1) for k in symbols] + [tuple(symbols[0] for _ in range(n - 1)), tuple(symbols[-1] for _ in range(n - 1))]
    if cell.get("patterns"):
        patterns = [tuple(pat) for pat in cell["patterns"]]
    for pattern in patterns:
        vs, reached = run_path(cfg, list(pattern), ref)
        res["evaluations"] += 1
        res["traces"] += 1
        res["transitions"] += n
        if set(pattern) - {"n"}:
            res["nontrivial"] += 1
        hid = {r for r in reached if r[0] == "hidden-state-differs-history-equal"}
        if hid:
            res["stats"]["paths_with_hidden_state_difference_but_equal_histories"] = res["stats"].get("paths_with_hidden_state_difference_but_equal_histories", 0) + 1
        allr |= reached - hid
        for key, what in vs:
            lineup = "+".join(s["cls"] for s in cfg["lineup"])
            if sum(1 for x in res["violations"] if x["key"] == key) < 1:
                res["violations"].append({"key": key, "what": f"[{lineup} sched={cfg.get('scheduler', 'rr')} loss={cfg.get('loss', 'minkowski')}] {what}", "case": {"cfg": cfg, "n": n, "pattern": list(pattern)}})
    res["states"] = len(allr)
    per_depth = {}
    for k, h in allr:
        per_depth.setdefault(k, set()).add(h)
    res["stats"]["depths_with_more_than_one_state"] = sum(1 for s in per_depth.values() if len(s) > 1)
    res["stats"]["configs"] = 1
    res["outcomes"] = [("states_per_depth", tuple(len(per_depth.get(k, ())) for k in range(1, n + 1)))]
    res["samples"] = [{"lineup": [s["cls"] for s in cfg["lineup"]], "n": n, "pattern": "rpn"[: n - 1]}]
    return res


def replay_case(case):
    if case.get("mode") == "replaced":
        r = replaced_cell({"cfg": case["cfg"], "lineup2": case["lineup2"]})
        return [{"key": v["key"], "what": v["what"]} for v in r["violations"]]
    ref = reference_states(case["cfg"], case["n"])
    vs, _ = run_path(case["cfg"], case["pattern"], ref)
    return [{"key": k, "what": w} for k, w in vs]


def main(ctx):
    from vf.checks.c02 import lineups

    S = ctx.seed
    n = 4 if ctx.quick else 5
    cells = []
    lus = lineups(2)
    for lu in lus:
        cells.append({"cfg": {"lineup": lu, "seed": S, "dims": 2, "model": "gauss2", "ensemble": 2, "loss": "minkowski"}, "n": n})
    extra = [lus[0], lus[9], lus[13], lus[22]] if ctx.quick else lus
    for lu in extra:
        for loss in ("msm", "gsl") if ctx.quick else ("msm", "gsl", "fourier", "likelihood"):
            cells.append({"cfg": {"lineup": lu, "seed": S + 1, "dims": 1, "model": "gauss2", "ensemble": 1, "loss": loss}, "n": n})
    if not ctx.quick:
        for lu in [x for x in lus if len(x) == 2 and x[0]["cls"] == "Halton"]:
            cells.append({"cfg": {"lineup": lu, "seed": S + 2, "dims": 2, "model": "gauss2", "ensemble": 1, "loss": "minkowski"}, "n": 6})
        for lu in lineups(3)[::7]:
            cells.append({"cfg": {"lineup": lu, "seed": S, "dims": 2, "model": "gauss2", "ensemble": 1}, "n": 6, "symbols": "pr"})
    # three samplers, cut positions that are not multiples of the line-up length
    for lu in ([["Halton", "RandomUniform", "RSequence"], ["RSequence", "ParticleSwarm", "BestBatch"]]):
        cells.append({"cfg": {"lineup": [{"cls": c, "bs": b} for c, b in zip(lu, (2, 3, 1))], "seed": S, "dims": 2, "model": "gauss2", "ensemble": 1}, "n": 5 if ctx.quick else 6,
                      "symbols": "pr" if ctx.quick else "npr"})
    # a checkpoint whose scheduler pickle grows by ~28 MB at every other batch (a sampler carrying growing state, like a surrogate
    # fitted on a growing history): 28, 56, 84 MB
    big = {"lineup": [{"cls": "Halton", "bs": 2}, {"cls": "Ballast", "bs": 2}], "seed": S, "dims": 2, "model": "gauss2", "ensemble": 1, "T": 4}
    cells.insert(0, {"cfg": big, "n": 6, "symbols": "nr", "patterns": [list("nnnrn"), list("nrnnn"), list("nnnnr")] if ctx.quick else [list(p_) for p_ in itertools.product("nr", repeat=5)]})
    # the scheduler / the line-up replaced between two calls, with a checkpoint taken right after the replacement
    for lu, lu2 in ((lus[5], [{"cls": "RandomUniform", "bs": 2}, {"cls": "Halton", "bs": 1}]), (lus[13], [{"cls": "RSequence", "bs": 2}, {"cls": "BestBatch", "bs": 2}, {"cls": "RandomUniform", "bs": 1}])):
        cells.append({"kind": "replaced", "cfg": {"lineup": lu, "seed": S, "dims": 2, "model": "gauss2", "ensemble": 2}, "lineup2": lu2})
    # a user SUBCLASS of Calibrator (it changes how a batch is simulated): stop/restore through the subclass resumes the subclass
    for lu in (lus[0], lus[13]):
        cells.append({"cfg": {"lineup": lu, "seed": S, "dims": 2, "model": "gauss2", "ensemble": 2, "subclass": True}, "n": 4, "symbols": "npr"})
    # checkpoints written by hand into one folder at irregular intervals (no saving folder, create_checkpoint only where the run is cut)
    for lu in (lus[5], lus[13]):
        cells.append({"cfg": {"lineup": lu, "seed": S, "dims": 2, "model": "gauss2", "ensemble": 2, "manual_ckpt": True}, "n": 5, "symbols": "npr"})
    # the retry workflow ('x': restore, run a batch on a throw-away object, restore again from the unchanged checkpoint)
    for lu in (lus[5], lus[13], lus[8]):
        cells.append({"cfg": {"lineup": lu, "seed": S, "dims": 2, "model": "gauss2", "ensemble": 1}, "n": 4, "symbols": "nprx"})
    # larger-scope probes: a five-sampler line-up, and a 12-batch run cut once at every position (plain and restore)
    five = [{"cls": c, "bs": b} for c, b in zip(("Halton", "RandomUniform", "ParticleSwarm", "BestBatch", "RSequence"), (3, 2, 2, 4, 1))]
    cells.append({"cfg": {"lineup": five, "seed": S, "dims": 3, "model": "gauss2", "ensemble": 1}, "n": 7, "symbols": "pr", "single_cut": True})
    cells.append({"cfg": {"lineup": [{"cls": "Halton", "bs": 5}, {"cls": "XGBoost", "bs": 3}, {"cls": "CORS", "bs": 2}], "seed": S, "dims": 2, "model": "gauss2", "ensemble": 4}, "n": 12, "symbols": "pr", "single_cut": True})
    # RL scheduler: plain cuts only without a folder (several sessions); with a folder the scheduler cannot be pickled (known finding)
    for eps in (0.0, 0.5):
        cells.append({"cfg": {"lineup": [{"cls": "Halton", "bs": 2}, {"cls": "RandomUniform", "bs": 2}, {"cls": "BestBatch", "bs": 2}], "seed": S, "dims": 2, "model": "gauss2", "ensemble": 1,
                              "scheduler": {"eps": eps, "agent_seed": 3, "alpha": 0.5}, "use_folder": False}, "n": n + 1, "symbols": "np"})
    cells.append({"cfg": {"lineup": [{"cls": "Halton", "bs": 2}, {"cls": "RandomUniform", "bs": 2}], "seed": S, "dims": 2, "model": "gauss2", "ensemble": 1,
                          "scheduler": {"eps": 0.5, "agent_seed": 3}}, "n": 2, "symbols": "r"})
    ctx.bounds = {"n_batches": n, "cut_patterns": f"all 3^{n - 1} over none/plain/restore", "lineups": len(lus), "cells": len(cells)}
    ctx.rule = "every cut pattern of every configuration; non-trivial = pattern with at least one plain or restore boundary; states = distinct (depth, canonical state) pairs (must be one per depth)"
    ctx.assumptions = ["canonical state drops fitted-model caches and the prime-sieve cache (see vf/canon.py)", "calibrate(0) is not in the alphabet"]
    cells.sort(key=lambda c: -(len(c.get("symbols", "npr")) ** (c.get("n", 4) - 1)) * (3 if any(s["cls"] in ("CORS", "GaussianProcess") for s in c["cfg"]["lineup"]) else 1))
    ctx.pmap("vf.checks.c05:run_cell", cells)
    ctx.require(ctx.stats.get("depths_with_more_than_one_state", 0) == 0 or bool(ctx.violations) or bool(ctx.known), "state graph forked without a reported violation")
    ctx.require(ctx.nontrivial > 500, "too few cut patterns")
