"""C16 - history-driven samplers use the history faithfully and never modify it (E4).

no-modification : all nine samplers x history lattice (ties, one huge loss, +inf, +-1e39 beyond float32 - both sides together and each side alone, -inf) x three successive calls:
                  byte snapshots of existing_points / existing_losses around every call (also when the call raises).
surrogate       : a stub MLSurrogateSampler whose fit() records its arguments and whose predict() returns a scripted vector:
                  pool sizes 3..5, EVERY prediction vector in {0,1,2}^pool, batch sizes 1..3, two successive calls with different
                  histories of equal length; fit must receive exactly the given history, the batch must be the grid snaps of pool
                  rows whose predictions are the batch_size smallest (as a multiset). The same two checks wrap the three real
                  surrogates (recorded, not scripted).
best-batch      : option lattice x dims 1..3 x histories with ties at the selection boundary: every returned row descends from one
                  of the batch_size lowest-loss rows by 1..range-1 precision steps on >= 1 coordinate, then confined to the space.
"""
from __future__ import annotations

import itertools

import numpy as np

from vf import lattice as L
from vf.core import quiet

ID = "C16"
TITLE = "History-driven samplers use the history faithfully and never modify it"


def _res():
    return {"evaluations": 0, "nontrivial": 0, "states": 0, "transitions": 0, "traces": 0, "stats": {}, "outcomes": set(), "violations": [], "samples": []}


def _viol(res, key, what, case):
    if sum(1 for x in res["violations"] if x["key"] == key) < 1:
        res["violations"].append({"key": key, "what": what, "case": case})


# --------------------------------------------------------------------------------------------- no modification
def nomod_case(case):
    space = L.make_space(case["space"])
    sampler = L.make_sampler(case["sampler"], case["opts"], case["bs"], case["seed"])
    pts, losses = L.history(space, case["n"], case["pattern"])
    v, delivered, raised = [], 0, None
    for call in range(3):
        bp, bl = pts.tobytes(), losses.tobytes()
        try:
            with quiet(), np.errstate(all="ignore"):
                out = np.asarray(sampler.sample(space, pts, losses))
            delivered += 1
        except Exception as e:  # noqa: BLE001
            raised = type(e).__name__
            out = None
        if pts.tobytes() != bp:
            v.append((f"history-modified:{case['sampler']}:existing_points", f"call {call}: sample() changed existing_points"))
        if losses.tobytes() != bl:
            idx = np.flatnonzero(np.frombuffer(bl, dtype=float).view(np.uint64) != losses.view(np.uint64))
            v.append((f"history-modified:{case['sampler']}:existing_losses", f"call {call}: sample() changed existing_losses at {idx.tolist()[:4]}: {np.frombuffer(bl, dtype=float)[idx][:3].tolist()} -> {losses[idx][:3].tolist()}"))
        if v or out is None or out.shape != (case["bs"], space.dims):
            break
        k = np.arange(len(pts), len(pts) + len(out), dtype=float)
        pts = np.vstack([pts, out])
        losses = np.concatenate([losses, 1.0 + ((k * 5) % 11) * 0.21])
    return v, delivered, raised


def nomod_cell(cell):
    res = _res()
    for case in cell["cases"]:
        vs, delivered, raised = nomod_case(case)
        res["evaluations"] += 1
        res["traces"] += 1
        res["transitions"] += delivered
        if case["pattern"] in ("inf", "f32overflow", "f32under", "f32over", "neginf", "huge", "ties"):
            res["nontrivial"] += 1
        res["outcomes"].add((case["sampler"], case["pattern"], "raised" if raised else "ok"))
        if raised:
            res["stats"][f"raised:{case['sampler']}:{case['pattern']}:{raised}"] = res["stats"].get(f"raised:{case['sampler']}:{case['pattern']}:{raised}", 0) + 1
        for key, what in vs:
            _viol(res, key, f"[{case['sampler']}{case['opts']} space={[L.SPECS[i] for i in case['space']]} history={case['n']}/{case['pattern']}] {what}", dict(case, mode="nomod"))
    res["states"] = res["evaluations"]
    res["outcomes"] = sorted(res["outcomes"])
    return res


# --------------------------------------------------------------------------------------------- surrogate pipeline
def _stub_class():
    from black_it.samplers.surrogate import MLSurrogateSampler

    class Stub(MLSurrogateSampler):
        def __init__(self, *a, **k):
            super().__init__(*a, **k)
            self.fits, self.pools, self.script = [], [], None

        def sample_candidates(self, *a, **k):
            pool = super().sample_candidates(*a, **k)
            self.pools.append(np.array(pool).copy())
            return pool

        def fit(self, X, y):  # noqa: N803
            self.fits.append((np.array(X).copy(), np.array(y).copy()))

        def predict(self, X):  # noqa: N803
            return np.array(self.script, dtype=float)

    return Stub


def judge_pipeline(space, hist, fit_args, pool, preds, out, bs, tag):
    from black_it.utils.base import digitize_data

    v = []
    if fit_args is None:
        return [("surrogate-not-trained", f"{tag}: fit() was not called for this history")]
    X, y = fit_args
    if not (np.array_equal(X, hist[0]) and np.array_equal(y, hist[1], equal_nan=True)):
        v.append(("surrogate-trained-on-other-data", f"{tag}: fit() received arrays that differ from the given history (shapes {X.shape}/{y.shape} vs {hist[0].shape}/{hist[1].shape})"))
    if out.shape != (bs, space.dims):
        v.append(("surrogate-batch-shape", f"{tag}: returned shape {out.shape}"))
        return v
    preds = np.asarray(preds, dtype=float).ravel()
    snapped = digitize_data(pool, space.param_grid)
    want = sorted(np.sort(preds)[:bs].tolist())
    # each returned row must be the snap of a distinct pool row; the predictions of those rows form the multiset of the bs smallest
    used, got = set(), []
    for r in out:
        cand = [int(i) for i in np.flatnonzero((snapped == r).all(axis=1)) if int(i) not in used]
        if not cand:
            v.append(("surrogate-row-not-from-pool", f"{tag}: returned row {r.tolist()} is not the grid snap of a (remaining) pool row"))
            return v
        best = min(cand, key=lambda i: preds[i])
        used.add(best)
        got.append(float(preds[best]))
    if sorted(got) != want:
        v.append(("surrogate-not-lowest-predictions", f"{tag}: returned rows have predictions {sorted(got)}, the {bs} lowest of the pool are {want} (pool predictions {preds.tolist() if len(preds) <= 12 else 'of ' + str(len(preds)) + ' candidates'})"))
    return v


def bigpool_case(case):
    """A stub surrogate whose prediction is a FUNCTION of the candidate (distance to the pool row at a chosen position), on pools of
    thousands of candidates: wherever the best candidates sit in the pool (head, tail, around multiples of 4096), they are returned."""
    from black_it.samplers.surrogate import MLSurrogateSampler

    space = L.make_space(case["space"])
    P, bs = case["pool"], case["bs"]

    class Stub(MLSurrogateSampler):
        target = None
        pools: list = []
        fits: list = []

        def sample_candidates(self, *a, **k):
            pool = np.array(super().sample_candidates(*a, **k))
            Stub.pools.append(pool.copy())
            pos = case["pos"] if case["pos"] >= 0 else len(pool) + case["pos"]
            Stub.target = pool[min(pos, len(pool) - 1)].copy()
            return pool

        def fit(self, X, y):  # noqa: N803
            Stub.fits.append((np.array(X).copy(), np.array(y).copy()))

        def predict(self, X):  # noqa: N803
            return np.sqrt(np.sum(((np.asarray(X, dtype=float) - Stub.target) / (np.abs(Stub.target) + 1.0)) ** 2, axis=1))

    Stub.pools, Stub.fits = [], []
    kw = {} if P is None else {"candidate_pool_size": P}
    s = Stub(batch_size=bs, random_state=case["seed"], max_deduplication_passes=0, **kw)
    hist = L.history(space, 12, "distinct")
    with quiet():
        out = np.asarray(s.sample(space, hist[0], hist[1]))
    pool = Stub.pools[-1]
    preds = np.sqrt(np.sum(((pool - Stub.target) / (np.abs(Stub.target) + 1.0)) ** 2, axis=1))
    return judge_pipeline(space, hist, Stub.fits[-1] if Stub.fits else None, pool, preds, out, bs, f"pool of {len(pool)}, batch {bs}, best candidate at pool position {case['pos']}")


def bigpool_cell(cell):
    res = _res()
    for case in cell["cases"]:
        vs = bigpool_case(case)
        res["evaluations"] += 1
        res["traces"] += 1
        res["transitions"] += 1
        res["nontrivial"] += 1
        res["outcomes"].add(("bigpool", case["pool"] or 1000 * case["bs"], case["bs"]))
        for key, what in vs:
            _viol(res, key, f"[stub surrogate predicting a function of the candidate, space={[L.SPECS[i] for i in case['space']]}] {what}", dict(case, mode="bigpool"))
    res["states"] = res["evaluations"]
    res["outcomes"] = sorted(res["outcomes"])
    return res


def stub_cell(cell):
    res = _res()
    Stub = _stub_class()
    space = L.make_space(cell["space"])
    for pool_size in cell["pools"]:
        for bs in (1, 2, 3):
            if bs > pool_size:
                continue
            histA = L.history(space, 6, "distinct")
            histB = L.history(space, 6, "ties", shift=3)
            for script in itertools.product((0.0, 1.0, 2.0), repeat=pool_size):
                s = Stub(batch_size=bs, random_state=cell["seed"], max_deduplication_passes=0, candidate_pool_size=pool_size)
                s.script = list(script)
                vs = []
                for ci, hist in enumerate((histA, histB)):
                    nf = len(s.fits)
                    with quiet():
                        out = np.asarray(s.sample(space, hist[0], hist[1]))
                    fit_args = s.fits[-1] if len(s.fits) > nf else None
                    vs += judge_pipeline(space, hist, fit_args, s.pools[-1], script, out, bs, f"call {ci}, pool {pool_size}, batch {bs}, predictions {list(script)}")
                    res["transitions"] += 1
                    if vs:
                        break
                res["evaluations"] += 1
                res["traces"] += 1
                if len(set(script)) < len(script):
                    res["nontrivial"] += 1
                res["outcomes"].add(("stub", pool_size, bs))
                for key, what in vs:
                    _viol(res, key, f"[stub surrogate, space={[L.SPECS[i] for i in cell['space']]}] {what}",
                          {"mode": "stub", "space": cell["space"], "pool": pool_size, "bs": bs, "script": list(script), "seed": cell["seed"]})
    res["states"] = res["evaluations"]
    res["samples"] = [{"stub_pool": cell["pools"][0], "predictions": [0.0, 1.0, 2.0], "batch_size": 1}]
    res["outcomes"] = sorted(res["outcomes"])
    return res


def stub_replay(case):
    Stub = _stub_class()
    space = L.make_space(case["space"])
    s = Stub(batch_size=case["bs"], random_state=case["seed"], max_deduplication_passes=0, candidate_pool_size=case["pool"])
    s.script = case["script"]
    vs = []
    for ci, hist in enumerate((L.history(space, 6, "distinct"), L.history(space, 6, "ties", shift=3))):
        nf = len(s.fits)
        with quiet():
            out = np.asarray(s.sample(space, hist[0], hist[1]))
        vs += judge_pipeline(space, hist, s.fits[-1] if len(s.fits) > nf else None, s.pools[-1], case["script"], out, case["bs"], f"call {ci}")
    return vs


def real_surrogate_case(case):
    """Record fit/predict/pool of a real surrogate through class-level wrappers."""
    from vf.opseq.cal import sampler_class

    cls = sampler_class(case["sampler"])
    space = L.make_space(case["space"])
    rec = {"fits": [], "preds": [], "pools": []}
    o_fit, o_pred, o_pool = cls.fit, cls.predict, cls.sample_candidates

    def fit(self, X, y):  # noqa: N803
        rec["fits"].append((np.array(X).copy(), np.array(y).copy()))
        return o_fit(self, X, y)

    def predict(self, X):  # noqa: N803
        p = o_pred(self, X)
        rec["preds"].append(np.array(p).copy())
        return p

    def pool(self, *a, **k):
        p = o_pool(self, *a, **k)
        rec["pools"].append(np.array(p).copy())
        return p

    cls.fit, cls.predict, cls.sample_candidates = fit, predict, pool
    vs = []
    try:
        s = L.make_sampler(case["sampler"], dict(case["opts"], max_deduplication_passes=0), case["bs"], case["seed"])
        for ci, hist in enumerate((L.history(space, case["n"], "distinct"), L.history(space, case["n"], "ties", shift=2))):
            nf = len(rec["fits"])
            with quiet():
                out = np.asarray(s.sample(space, hist[0], hist[1]))
            fit_args = rec["fits"][-1] if len(rec["fits"]) > nf else None
            vs += judge_pipeline(space, hist, fit_args, rec["pools"][-1], rec["preds"][-1], out, case["bs"], f"{case['sampler']} call {ci}")
    finally:
        cls.fit, cls.predict, cls.sample_candidates = o_fit, o_pred, o_pool
    return vs


def real_cell(cell):
    res = _res()
    for case in cell["cases"]:
        vs = real_surrogate_case(case)
        res["evaluations"] += 1
        res["traces"] += 1
        res["transitions"] += 2
        res["nontrivial"] += 1
        res["outcomes"].add(("real-surrogate", case["sampler"]))
        for key, what in vs:
            _viol(res, key + ":" + case["sampler"], f"[space={[L.SPECS[i] for i in case['space']]}] {what}", dict(case, mode="real"))
    res["states"] = res["evaluations"]
    res["outcomes"] = sorted(res["outcomes"])
    return res


# --------------------------------------------------------------------------------------------- best batch
def bestbatch_case(case):
    space = L.make_space(case["space"])
    lo = np.array([L.SPECS[i][0] for i in case["space"]])
    up = np.array([L.SPECS[i][1] for i in case["space"]])
    pr = np.array([L.SPECS[i][2] for i in case["space"]])
    bs, rng_ = case["bs"], case["opts"].get("perturbation_range", 6)
    s = L.make_sampler("BestBatch", case["opts"], bs, case["seed"])
    if case.get("set_after"):
        # public attributes changed on the live object (a schedule narrowing the perturbation as the calibration proceeds):
        # every call reads the values in force
        with quiet():
            s.sample(space, *L.history(space, case["n"], case["pattern"]))
        try:
            for k_, v_ in case["set_after"].items():
                setattr(s, k_, v_)
        except AttributeError:
            return []   # the attribute is read-only in this implementation: nothing to judge
        rng_ = case["set_after"].get("perturbation_range", rng_)
    pts, losses = L.history(space, case["n"], case["pattern"] if case["pattern"] != "nan-first" else "distinct")
    if case["pattern"] == "nan-first":
        losses = losses.copy()
        losses[[0, len(losses) // 2]] = np.nan     # failed simulations: never among the lowest-loss points (a NaN ranks last)
    with quiet():
        out = np.asarray(s.sample(space, pts, losses))
    v = []
    if out.shape != (bs, space.dims):
        return [("bestbatch-shape", f"returned shape {out.shape}")]
    thr = np.sort(losses)[bs - 1]
    parents = pts[losses <= thr]
    for r in out:
        ok = False
        for p in parents:
            moved = False
            good = True
            for c in range(space.dims):
                hit = None
                for k in range(-(rng_ - 1), rng_):
                    target = min(max(p[c] + k * pr[c], lo[c]), up[c])
                    if abs(r[c] - target) <= pr[c] / 2 + 1e-12 * max(1.0, abs(target)):
                        hit = k if hit is None or abs(k) < abs(hit) else hit
                        if k != 0:
                            moved_c = True
                if hit is None:
                    good = False
                    break
                # could this coordinate have been displaced by a non-zero number of steps?
                if any(abs(r[c] - min(max(p[c] + k * pr[c], lo[c]), up[c])) <= pr[c] / 2 + 1e-12 * max(1.0, abs(r[c])) for k in range(-(rng_ - 1), rng_) if k != 0):
                    moved = True
            if good and moved:
                ok = True
                break
        if not ok:
            v.append(("bestbatch-not-a-perturbed-best-point", f"returned row {r.tolist()} is not one of the {bs} lowest-loss rows (loss <= {thr}) displaced by 1..{rng_ - 1} steps on >= 1 coordinate; parents {parents.tolist()[:4]}"))
            break
    return v


def bestbatch_cell(cell):
    res = _res()
    for case in cell["cases"]:
        vs = bestbatch_case(case)
        res["evaluations"] += 1
        res["traces"] += 1
        res["transitions"] += 1
        if case["pattern"] == "ties":
            res["nontrivial"] += 1
        res["outcomes"].add(("bestbatch", len(case["space"]), case["opts"].get("perturbation_range", 6)))
        for key, what in vs:
            _viol(res, key, f"[BestBatch{case['opts']} space={[L.SPECS[i] for i in case['space']]} bs={case['bs']} history={case['n']}/{case['pattern']} seed={case['seed']}] {what}", dict(case, mode="bestbatch"))
    res["states"] = res["evaluations"]
    res["outcomes"] = sorted(res["outcomes"])
    return res


def run_cell(cell):
    return {"nomod": nomod_cell, "stub": stub_cell, "real": real_cell, "bestbatch": bestbatch_cell, "bigpool": bigpool_cell}[cell["kind"]](cell)


def replay_case(case):
    m = case["mode"]
    if m == "nomod":
        vs, _, _ = nomod_case(case)
    elif m == "stub":
        vs = stub_replay(case)
    elif m == "bigpool":
        vs = bigpool_case(case)
    elif m == "real":
        vs = [(k + ":" + case["sampler"], w) for k, w in real_surrogate_case(case)]
    else:
        vs = bestbatch_case(case)
    return [{"key": k, "what": w} for k, w in vs]


def main(ctx):
    S = ctx.seed
    cells = []
    spaces1 = [[0], [1], [4], [5], [7]]
    spaces2 = [[0, 3], [1, 11], [4, 8], [5, 1, 3]]
    # no-modification
    cases = []
    for sp in spaces1 + spaces2:
        for name, opts in L.CHEAP + L.COSTLY:
            for pattern in ("ties", "huge", "inf", "f32overflow", "f32under", "f32over", "neginf"):
                for n in ((9,) if ctx.quick else (3, 4, 9)):
                    cases.append({"space": sp, "sampler": name, "opts": opts, "bs": 3 if name not in ("ParticleSwarm",) else 2, "seed": S, "n": n, "pattern": pattern})
    for name, opts in L.CHEAP + L.COSTLY:   # larger-scope probes: 40-row history, batch of 6, five parameters
        cases.append({"space": [0, 3, 4, 8, 11], "sampler": name, "opts": opts, "bs": 6 if name != "ParticleSwarm" else 5, "seed": S, "n": 40, "pattern": "f32overflow"})
    for i in range(32):
        if cases[i::32]:
            cells.append({"kind": "nomod", "cases": cases[i::32]})
    # stub surrogate: every prediction vector in {0,1,2}^pool
    for sp in ([[0], [1, 11], [4, 8, 3]] if ctx.quick else spaces1 + spaces2):
        for pools in ([3], [4], [5]) if ctx.quick else ([3], [4], [5], [6]):
            cells.append({"kind": "stub", "space": sp, "pools": pools, "seed": S})
    # real surrogates
    rc = []
    for sp in ([[0], [1, 11], [4, 8, 3], [5]] if ctx.quick else spaces1 + spaces2):
        for name, opts in [x for x in L.COSTLY if x[0] != "CORS"]:
            for seed in (S, S + 1):
                rc.append({"space": sp, "sampler": name, "opts": opts, "bs": 2, "seed": seed, "n": 8})
    for i in range(8):
        cells.append({"kind": "real", "cases": rc[i::8]})
    # best batch
    bc = []
    for sp in [[0], [1], [3], [0, 3], [1, 11], [4, 8], [0, 3, 1], [5, 1, 3]]:
        for pr in (2, 3, 6):
            for a, b in ((3.0, 1.0), (1.0, 1.0), (0.5, 2.0)):
                for pattern in ("distinct", "ties", "equal", "huge"):
                    for n in (3, 4, 9):
                        for seed in range(S, S + (2 if ctx.quick else 6)):
                            bc.append({"space": sp, "opts": {"perturbation_range": pr, "a": a, "b": b}, "bs": 3, "seed": seed, "n": n, "pattern": pattern})
    for pr in (2, 6, 11):
        for seed in range(S, S + 4):
            bc.append({"space": [0, 3, 4, 8, 11], "opts": {"perturbation_range": pr, "a": 3.0, "b": 1.0}, "bs": 8, "seed": seed, "n": 40, "pattern": "ties"})
    for sp in ([0], [0, 3], [5, 1, 3]):
        for pr0, pr1 in ((6, 2), (6, 3), (2, 6), (11, 2)):
            for seed in range(S, S + (3 if ctx.quick else 8)):
                bc.append({"space": sp, "opts": {"perturbation_range": pr0, "a": 3.0, "b": 1.0}, "bs": 4, "seed": seed, "n": 9, "pattern": "distinct", "set_after": {"perturbation_range": pr1}})
    for sp in ([0], [0, 3], [5, 1, 3]):
        for bsz in (1, 2, 3):
            for seed in range(S, S + (3 if ctx.quick else 8)):
                bc.append({"space": sp, "opts": {"perturbation_range": 3, "a": 3.0, "b": 1.0}, "bs": bsz, "seed": seed, "n": 9, "pattern": "nan-first"})
    # long histories (a partial-sort or chunked path would only be taken there)
    for n in (999, 1000, 1001, 2500) + (() if ctx.quick else (5000, 20000)):
        for bs in (4, 10):
            for pattern in ("distinct", "huge"):
                bc.append({"space": [0, 3, 4], "opts": {"perturbation_range": 3, "a": 3.0, "b": 1.0}, "bs": bs, "seed": S, "n": n, "pattern": pattern})
    for i in range(16):
        cells.append({"kind": "bestbatch", "cases": bc[i::16]})
    # large candidate pools (default pool = 1000 x batch size), best candidate at the head, the tail and around multiples of 4096
    bp = []
    for P, bs in ((None, 1), (None, 9), (None, 16), (4095, 4), (4097, 4), (8192, 3), (8193, 3), (10000, 4), (20000, 16)) + (() if ctx.quick else ((65537, 8), (100000, 4))):
        n = P or 1000 * bs
        for pos in sorted({0, -1, -2, n // 2, 4095 if n > 4096 else 1, 4096 if n > 4097 else 2, 8191 if n > 8192 else 3, 8192 if n > 8193 else 4, n - n % 4096 if n % 4096 and n > 4096 else 5}):
            bp.append({"space": [0, 3, 4], "pool": P, "bs": bs, "pos": pos, "seed": S})
    for i in range(8):
        cells.append({"kind": "bigpool", "cases": bp[i::8]})
    ctx.bounds = {"no_modification": {"samplers": len(L.CHEAP) + len(L.COSTLY), "spaces": len(spaces1 + spaces2), "loss_patterns": ["ties", "huge", "inf", "f32overflow", "f32under", "f32over", "neginf"], "successive_calls": 3},
                  "stub_surrogate": "pool sizes 3..5 (6 thorough), every prediction vector in {0,1,2}^pool, batch sizes 1..3, two calls with different equal-length histories",
                  "large_pools": "stub surrogate predicting a function of the candidate; pools 1000..20000 (100000 thorough), best candidate at head / tail / around multiples of 4096",
                  "long_histories_best_batch": "999..2500 rows (20000 thorough)",
                  "real_surrogates": ["GaussianProcess(mean)", "GaussianProcess(EI)", "XGBoost", "RandomForest"], "best_batch": {"cases": len(bc), "perturbation_range": [2, 3, 6], "ab": [(3, 1), (1, 1), (0.5, 2)]}}
    ctx.rule = "one evaluation = one sampler object through its call sequence; non-trivial = histories with ties / extreme losses, prediction vectors with ties"
    ctx.assumptions = ["best-batch oracle has a half-step slack so that it is indifferent to how the result is confined to the space (C03 judges that)",
                       "exceptions (e.g. Gaussian process on infinite losses) are recorded; the arrays must be intact also then"]
    ctx.pmap("vf.checks.c16:run_cell", cells)
    ctx.require(any(o[0] == "stub" for o in ctx.outcomes) and any(o[0] == "bestbatch" for o in ctx.outcomes) and any(o[0] == "real-surrogate" for o in ctx.outcomes), "a part of the check did not run")
    ctx.require(ctx.evaluations > 2000, "too few evaluations")
