"""C20 - time-series filters and the moment summary equal their definitions (E4).

Every length 3..64 (3..400 thorough) plus {100,250,500,1000,2000} x five lambdas (all on the SAME process, so state kept between
calls would show) x seven shapes x three scales. Oracle: with A = I + lambda K'K applied independently (second differences by
convolution): ||A trend - y||_inf <= 1e-10 (||A||_inf ||trend||_inf + ||y||_inf); |cycle + trend - y| <= 4 ulp; the three
derived filters equal their definitions (bitwise where they are thin wrappers); the 18-number moment summary is finite for every
finite series, constant ones included (levels that do and do not sum exactly in floating point).
"""
from __future__ import annotations

import math

import numpy as np

ID = "C20"
TITLE = "Time-series filters and the moment summary equal their definitions"
LAMBDAS = [1e-3, 1.0, 1600.0, 1e5, 1e7]
SCALES = [1.0, 1e-6, 1e6, 1e-9, 1e-13]


def shapes(n):
    t = np.arange(n, dtype=float)
    x = 12345 % 2147483647
    rw = []
    acc = 0.0
    for _ in range(n):
        x = (1103515245 * x + 12345) % 2147483648
        acc += (x / 2147483648.0) - 0.5
        rw.append(acc)
    return {
        "constant": np.full(n, 0.7),
        "linear": 0.3 + 0.1 * t,
        "quadratic": 1.0 + 0.01 * t * t - 0.2 * t,
        "alternating": np.where(t % 2 == 0, 1.0, -1.0),
        "step": np.where(t < n // 2, 0.0, 1.0),
        "sawtooth": (t % 5) / 5.0,
        "randomwalk": np.array(rw),
        "level+ripple": 1.0 + 2e-6 * np.sin(2 * np.pi * t / 16.0) + 1e-7 * np.array(rw),   # a level with fluctuations far below it
    }


def apply_A(x, lamb):
    k = np.convolve(x, [1.0, -2.0, 1.0], mode="valid")
    return x + lamb * np.convolve(k, [1.0, -2.0, 1.0])


_DENSE = {}


def dense_trend(y, lamb):
    """Independent solve of (I + lambda K'K) trend = y with a dense matrix built from the second-difference stencil."""
    n = len(y)
    if n not in _DENSE:
        K = np.zeros((n - 2, n))
        for i in range(n - 2):
            K[i, i:i + 3] = [1.0, -2.0, 1.0]
        _DENSE[n] = K.T @ K
    return np.linalg.solve(np.eye(n) + lamb * _DENSE[n], y)


def ulp(a):
    return np.spacing(np.maximum(np.abs(a), 1e-300))


def check_hp(n, res, viol):
    from black_it.utils import time_series as ts

    for sname, base in shapes(n).items():
        for sc in SCALES + (["float32", "int64"] if n % 3 == 0 or n > 64 else []):
            # "float32" / "int64": the same numbers handed over in another dtype (a single-precision simulator, a series of counts);
            # the definition is the one of the exact values, so the double-precision oracle applies unchanged
            y = base * sc if not isinstance(sc, str) else (base * 100.0).astype(np.float32) if sc == "float32" else np.round(base * 100.0).astype(np.int64)
            yin, y = y, np.asarray(y, dtype=float)
            for lamb in LAMBDAS:
                res["evaluations"] += 1
                res["transitions"] += 1
                case = {"mode": "hp", "n": n, "shape": sname, "scale": sc, "lamb": lamb}
                try:
                    cycle, trend = ts.hp_filter(yin.copy(), lamb)
                except Exception as e:  # noqa: BLE001
                    viol("hp-raises", f"hp_filter(n={n}, {sname}x{sc}, lambda={lamb}) raised {type(e).__name__}: {e}", case)
                    continue
                cycle, trend = np.asarray(cycle), np.asarray(trend)
                if cycle.shape != (n,) or trend.shape != (n,):
                    viol("hp-shape", f"hp_filter(n={n}) returned shapes {cycle.shape}, {trend.shape}", case)
                    continue
                resid = np.max(np.abs(apply_A(trend, lamb) - y))
                bound = 1e-10 * ((1 + 16 * lamb) * np.max(np.abs(trend)) + np.max(np.abs(y)))
                if not resid <= bound:
                    viol("hp-optimality", f"hp_filter(n={n}, {sname}x{sc}, lambda={lamb}): ||(I+lambda K'K) trend - y||_inf = {resid:.3g} > {bound:.3g}", case)
                if n <= 250 and (n % 2 == 0 or n < 40):
                    # forward comparison with the dense solve: both are backward stable, so they agree to cond(A) * eps * ||y||
                    ref_t = dense_trend(y, lamb)
                    tol = 256 * 2.3e-16 * (1 + 16 * lamb) * np.max(np.abs(y)) + 1e-300
                    if not np.max(np.abs(trend - ref_t)) <= tol:
                        viol("hp-trend-differs-from-dense-solve", f"hp_filter(n={n}, {sname}x{sc}, lambda={lamb}): trend differs from the dense solve of the same system by {np.max(np.abs(trend - ref_t)):.3g} > {tol:.3g}", case)
                if not np.all(np.abs(cycle + trend - y) <= 4 * ulp(np.maximum(np.abs(y), np.abs(trend)))):
                    viol("hp-cycle-plus-trend", f"hp_filter(n={n}, {sname}x{sc}, lambda={lamb}): cycle + trend differs from the input by {np.max(np.abs(cycle + trend - y)):.3g}", case)
                if sname != "constant":
                    res["nontrivial"] += 1
            if isinstance(sc, str):
                continue
            # derived filters (lambda 1600)
            c1600 = ts.hp_filter(y.copy(), 1600)[0]
            got = ts.hp_cycle_lamb1600_filter(y.copy())
            res["evaluations"] += 1
            if not np.array_equal(np.asarray(got), np.asarray(c1600)):
                viol("hp-cycle-1600-wrapper", f"hp_cycle_lamb1600_filter(n={n}, {sname}x{sc}) != hp_filter(x, 1600)[0]", {"mode": "hp", "n": n, "shape": sname, "scale": sc, "lamb": 1600.0})
            pos = np.abs(y) + 0.5 * sc
            lg = np.log(pos)
            exp1 = lg - ts.hp_filter(lg.copy(), 1600)[1]
            got1 = ts.log_and_hp_filter(pos.copy())
            res["evaluations"] += 1
            if not np.array_equal(np.asarray(got1), np.asarray(exp1)):
                viol("log-and-hp-wrapper", f"log_and_hp_filter(n={n}, {sname}x{sc}) != log x - hp_filter(log x, 1600)[1]", {"mode": "hp", "n": n, "shape": sname, "scale": sc, "lamb": 1600.0})
            dl = np.diff(lg, prepend=lg[0])
            exp2 = dl - np.mean(dl)
            got2 = np.asarray(ts.diff_log_demean_filter(pos.copy()))
            res["evaluations"] += 1
            if got2.shape != (n,) or not np.allclose(got2, exp2, rtol=0, atol=1e-12 * max(1.0, np.max(np.abs(lg)))) or abs(np.mean(got2)) > 1e-12 * max(1.0, np.max(np.abs(dl))):
                viol("diff-log-demean", f"diff_log_demean_filter(n={n}, {sname}x{sc}): shape {got2.shape}, mean {np.mean(got2):.3g}, max deviation from the definition {np.max(np.abs(got2 - exp2)) if got2.shape == (n,) else 'n/a'}",
                     {"mode": "hp", "n": n, "shape": sname, "scale": sc, "lamb": 1600.0})


CONST_LEVELS = [0.0, 1.0, 5.0, 0.1, 0.3, 0.7, 1.0 / 3.0, 7e-7, 123456.789, -2.2, 1e-300, 1e300]


def check_extreme_logs(n, res, viol):
    """Positive series with an extreme dynamic range: every value and every logarithm is finite, ratios of neighbours are not."""
    from black_it.utils import time_series as ts

    t = np.arange(n, dtype=float)
    for name, y in (("alt-1e-160/1e160", np.where(t % 2 == 0, 1e-160, 1e160)), ("loguniform-1e-300..1e300", 10.0 ** (((t * 7) % n) / max(1, n - 1) * 600.0 - 300.0)),
                    ("tiny-then-huge", np.where(t < n // 2, 5e-324 * 1e10, 1e300))):
        lg = np.log(y)
        dl = np.diff(lg, prepend=lg[0])
        exp = dl - np.mean(dl)
        res["evaluations"] += 1
        res["nontrivial"] += 1
        with np.errstate(all="ignore"):
            got = np.asarray(ts.diff_log_demean_filter(y.copy()))
        if got.shape != (n,) or not np.all(np.isfinite(got)) or not np.allclose(got, exp, rtol=0, atol=1e-9 * np.max(np.abs(lg))):
            viol("diff-log-demean", f"diff_log_demean_filter(n={n}, {name}): not the de-meaned first difference of the log (finite: {bool(np.all(np.isfinite(got))) if got.shape == (n,) else 'shape'})",
                 {"mode": "extreme", "n": n})


def check_moments(n, res, viol):
    from black_it.utils import time_series as ts

    series = dict(shapes(n))
    for lv in CONST_LEVELS:
        series[f"const{lv!r}"] = np.full(n, lv)
    t = np.arange(n, dtype=float)
    series["const-abs-diff-0.1"] = 0.1 * t
    series["const-abs-diff-alt0.3"] = np.where(t % 2 == 0, 0.3, 0.0)
    series["two-level"] = np.where(t < 2, 0.1, 0.1 + 1e-17)
    for sname, y in series.items():
        for sc in (SCALES if not sname.startswith("const") else [1.0]):
            res["evaluations"] += 1
            res["transitions"] += 1
            case = {"mode": "moments", "n": n, "shape": sname, "scale": sc}
            try:
                with np.errstate(all="ignore"):
                    m = np.asarray(ts.get_mom_ts_1d(y * sc))
            except Exception as e:  # noqa: BLE001
                viol("moments-raise", f"get_mom_ts_1d(n={n}, {sname}x{sc}) raised {type(e).__name__}: {e}", case)
                continue
            if m.shape != (18,) or not np.all(np.isfinite(m)):
                bad = np.flatnonzero(~np.isfinite(m)).tolist() if m.shape == (18,) else "shape"
                viol("moments-not-finite", f"get_mom_ts_1d(n={n}, {sname}x{sc}): non-finite or mis-shaped summary (positions {bad})", case)
            if sname.startswith("const") or sname in ("constant", "linear", "alternating", "two-level"):
                res["nontrivial"] += 1
    # the 2-d wrapper
    y2 = np.stack([series["randomwalk"], series["constant"], series["const0.1"]], axis=1)
    with np.errstate(all="ignore"):
        m2 = np.asarray(ts.get_mom_ts(y2))
    res["evaluations"] += 1
    if m2.shape != (18, 3) or not np.all(np.isfinite(m2)):
        viol("moments-not-finite", f"get_mom_ts(n={n}): shape {m2.shape} / non-finite entries", {"mode": "moments", "n": n, "shape": "2d", "scale": 1.0})


def run_cell(cell):
    import warnings

    warnings.filterwarnings("ignore")
    res = {"evaluations": 0, "nontrivial": 0, "states": 0, "transitions": 0, "traces": 0, "stats": {}, "outcomes": set(), "violations": [], "samples": []}

    def viol(key, what, case):
        if sum(1 for x in res["violations"] if x["key"] == key) < 1:
            res["violations"].append({"key": key, "what": what, "case": case})

    for n in cell["hp"]:
        check_hp(n, res, viol)
        check_extreme_logs(n, res, viol)
        res["outcomes"].add(("hp", n))
    for n in cell["moments"]:
        check_moments(n, res, viol)
        res["outcomes"].add(("mom", n))
    res["states"] = res["traces"] = res["evaluations"]
    res["samples"] = [{"hp_length": cell["hp"][0] if cell["hp"] else None, "lambdas": LAMBDAS, "shape": "randomwalk"}]
    res["outcomes"] = sorted(res["outcomes"])
    return res


def replay_case(case):
    res = {"evaluations": 0, "nontrivial": 0, "transitions": 0, "violations": []}
    found = []

    def viol(key, what, c):
        found.append({"key": key, "what": what})

    if case["mode"] == "extreme":
        check_extreme_logs(case["n"], res, viol)
    elif case["mode"] == "hp":
        check_hp(case["n"], res, viol)
    else:
        check_moments(case["n"], res, viol)
    return found


def main(ctx):
    hp_ns = list(range(3, 65)) + [100, 250, 500, 1000, 2000] if ctx.quick else list(range(3, 401)) + [500, 1000, 2000]
    mom_ns = list(range(8, 65)) + [100, 250, 500, 1000, 2000] if ctx.quick else list(range(8, 401)) + [500, 1000, 2000]
    k = 16 if ctx.quick else 48
    # interleave lengths so that every cell sees several lengths AND revisits lengths with different lambdas
    cells = [{"hp": hp_ns[i::k], "moments": mom_ns[i::k]} for i in range(k)]
    ctx.bounds = {"hp_lengths": f"{hp_ns[0]}..{hp_ns[-6] if ctx.quick else 400} + tail {hp_ns[-5:] if ctx.quick else hp_ns[-3:]}", "lambdas": LAMBDAS, "shapes": list(shapes(8)), "scales": SCALES,
                  "moment_lengths": f"8..{64 if ctx.quick else 400} + tail", "constant_levels": CONST_LEVELS}
    ctx.rule = "every (length, shape, scale, lambda) of the lattice; non-trivial = non-constant shapes for the filters, constant / constant-difference series for the moment summary"
    ctx.assumptions = ["A = I + lambda K'K applied by two convolutions with [1,-2,1] (independent of scipy.sparse)", "bounded enumeration with an algebraic oracle; series outside the shape lattice are not covered"]
    ctx.pmap("vf.checks.c20:run_cell", cells)
    ctx.require(ctx.evaluations > 5000, "too few evaluations")
