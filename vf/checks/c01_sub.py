"""Helper of C01: one calibration in ANOTHER interpreter process (other PYTHONHASHSEED), result pickled to argv[1]."""
from __future__ import annotations

import json
import pickle
import sys


def main():
    from vf.checks.c01 import one_run

    cfg = json.loads(sys.stdin.read())
    try:
        out = ("ok", one_run(cfg))
    except Exception as e:  # noqa: BLE001
        out = ("raised", type(e).__name__, str(e)[:300])
    with open(sys.argv[1], "wb") as f:
        pickle.dump(out, f)


if __name__ == "__main__":
    main()
