"""C12 - deduplication replaces only repeated points and gives up only after its passes (E4).

The real BaseSampler.sample() is driven through a scripted subclass whose sample_batch(k) hands out
the next k rows of a script. The environment (the generator's answers) is explored systematically:
an execution that asks for rows beyond the script is extended by EVERY k-tuple over the universe
U = {h1, h2 (in the history), f1, f2 (fresh)}, depth-first, so every script over U is covered by the
leaf whose consumed prefix it extends. At every node the implementation is compared with a reference
model of the documented loop.
"""
from __future__ import annotations

import itertools

import numpy as np

ID = "C12"
TITLE = "Deduplication replaces only repeated points and gives up only after its passes"

# rows share coordinates on purpose: comparing only one column would conflate them
# universe 3: large-scale rows, pairwise distinct but close in relative terms (a tolerance comparison would conflate them)
ROWS = {1: [[0.1], [0.2], [0.3], [0.4]], 2: [[0.0, 0.0], [0.0, 1.0], [1.0, 0.0], [1.0, 1.0]],
        3: [[250000.0, 3.0], [250001.0, 3.0], [250002.0, 3.0], [250000.0, 3.0000001]],
        # universe 4: symbols 0 and 1 are the SAME point written with zeros of opposite sign (equal numerically, different bytes)
        4: [[0.0, 0.25], [-0.0, 0.25], [0.5, 0.25], [0.0, 0.5]],
        # universe 5: five columns, every symbol with its own first coordinate (a pre-filter on one column would tell them apart)
        5: [[0.1, 0.5, 0.5, 0.5, 0.5], [0.2, 0.5, 0.5, 0.5, 0.5], [0.3, 0.5, 0.5, 0.5, 0.5], [0.4, 0.5, 0.5, 0.5, 0.5]]}
ROWS[6] = [[0.3, 0.33, 0.36, 0.39, 0.42, 0.45, 0.48, 0.51, 0.54, 0.5700000000000001], [0.44, 0.47000000000000003, 0.5, 0.53, 0.56, 0.59, 0.62, 0.65, 0.68, 0.71],
           [0.65, 0.68, 0.71, 0.74, 0.77, 0.8, 0.8300000000000001, 0.86, 0.89, 0.92], [0.79, 0.8200000000000001, 0.85, 0.88, 0.91, 0.9400000000000001, 0.97, 0.03, 0.06, 0.09]]
# universe 6: ten columns of hundredths (their sums are inexact and depend on the order of addition); used with a generator that returns
# its batch in another memory layout (Fortran order) than the C-ordered history
NCOLS = {1: 1, 2: 2, 3: 2, 4: 2, 5: 5, 6: 10}
SAME = {4: {1: 0}}   # symbol -> the symbol it is numerically equal to


def canon_script(script, cols):
    m = SAME.get(cols, {})
    return tuple(m.get(s, s) for s in script)
HISTORIES = {"empty": [], "h1": [0], "h1h2": [0, 1], "h1h1h2": [0, 0, 1], "h2only": [1]}


class NeedMore(Exception):
    def __init__(self, k):
        self.k = k


def _make_sampler(batch_size, passes, base="base"):
    from black_it.samplers.base import BaseSampler
    from black_it.samplers.surrogate import MLSurrogateSampler

    class Scripted(MLSurrogateSampler if base == "surrogate" else BaseSampler):
        def fit(self, X, y):  # noqa: N803  (only needed to make a surrogate-derived class concrete; sample_batch below is scripted)
            pass

        def predict(self, X):  # noqa: N803
            return np.zeros(len(X))

        def sample_batch(self, batch_size, search_space, existing_points, existing_losses):  # noqa: ARG002
            self.requests.append(int(batch_size))
            if self.pos + batch_size > len(self.script):
                raise NeedMore(int(batch_size))
            rows = self.script[self.pos:self.pos + batch_size]
            self.pos += batch_size
            out = np.array([self.rows[s] for s in rows], dtype=float).reshape(batch_size, NCOLS[self.cols])
            return np.asfortranarray(out) if self.cols == 6 else out

    s = Scripted(batch_size=batch_size, random_state=0, max_deduplication_passes=passes)
    return s


def ref_run(script, hist, B, P):
    """Reference: returns ('need', k, requests) or ('done', multiset, requests, untouched, passes_run, each_found)."""
    pos, requests = 0, [B]
    if len(script) < B:
        return ("need", B, requests)
    batch = list(script[:B])
    pos = B
    untouched = set(range(B))
    passes_run = 0
    hs = set(hist)
    for _ in range(P):
        R = [i for i in range(B) if batch[i] in hs or batch.count(batch[i]) > 1]
        if not R:
            break
        requests.append(len(R))
        if pos + len(R) > len(script):
            return ("need", len(R), requests)
        new = script[pos:pos + len(R)]
        pos += len(R)
        passes_run += 1
        for i, r in zip(R, new):
            batch[i] = r
            untouched.discard(i)
    return ("done", sorted(batch), requests, untouched, passes_run)


_PAD = {}


def _padding(n, ncols):
    """n filler rows, pairwise distinct and distinct from every universe row (second column 2 + k/n)."""
    if (n, ncols) not in _PAD:
        a = np.full((n, ncols), 0.75)
        a[:, 0] = 5.0 + np.arange(n) * 1e-3
        a[:, 1] = 2.0 + np.arange(n) / n
        _PAD[(n, ncols)] = a
    return _PAD[(n, ncols)]


def impl_run(sampler, script, hist, cols, pad=0, loss_kind="zeros"):
    rows = ROWS[cols]
    sampler.rows, sampler.cols = rows, cols
    sampler.script, sampler.pos, sampler.requests = list(script), 0, []
    existing = np.array([rows[h] for h in hist], dtype=float).reshape(len(hist), NCOLS[cols])
    losses = np.zeros(len(hist))
    if loss_kind == "nonfinite":   # the history rows carry NaN / inf losses (failed simulations): they are history rows all the same
        losses = np.array([np.nan if i % 2 == 0 else np.inf for i in range(len(hist))], dtype=float)
    if pad:
        # a LONG history: the universe rows sit at position 77 and at the very end of `pad` filler rows
        fill = _padding(pad, NCOLS[cols])
        existing = np.vstack([fill[:77], existing[:1], fill[77:], existing[1:]]) if len(hist) else fill
        losses = np.concatenate([np.ones(77), losses[:1], np.ones(pad - 77), losses[1:]]) if len(hist) else np.ones(pad)
    before = existing.copy()
    try:
        out = sampler.sample(None, existing, losses)
    except NeedMore as e:
        return ("need", e.k, list(sampler.requests), None)
    mod = not np.array_equal(before, existing)
    return ("done", out, list(sampler.requests), mod)


def judge(script, hist, B, P, cols, impl, ref):
    """Compare one execution; returns list of (key, what)."""
    v = []
    if impl[0] != ref[0]:
        v.append(("requested-sizes", f"implementation {impl[0]} after requests {impl[2]}, reference {ref[0]} after {ref[2]}"))
        return v
    if impl[0] == "need":
        if impl[1] != ref[1] or impl[2] != ref[2]:
            v.append(("requested-sizes", f"implementation asked for {impl[2]}, reference for {ref[2]}"))
        return v
    _, out, ireq, mod = impl
    _, rmulti, rreq, untouched, passes_run = ref
    rows = ROWS[cols]
    if mod:
        v.append(("history-modified", "sample() modified existing_points"))
    if out.shape != (B, NCOLS[cols]):
        v.append(("shape", f"returned shape {out.shape}, expected {(B, NCOLS[cols])}"))
        return v
    if ireq != rreq:
        v.append(("requested-sizes", f"implementation asked for {ireq}, reference for {rreq}"))
    # map rows back to symbols
    syms = []
    for r in out:
        m = [i for i, row in enumerate(rows) if np.array_equal(np.array(row, dtype=float), r)]
        if not m:
            v.append(("foreign-row", f"returned row {r.tolist()} is not a row of the script universe"))
            return v
        syms.append(m[0])
    for i in untouched:
        if syms[i] != script[i]:
            v.append(("fresh-point-altered", f"position {i} was never a repeat but changed from {script[i]} to {syms[i]}"))
    if sorted(syms) != rmulti:
        v.append(("multiset", f"returned symbols {sorted(syms)}, reference {rmulti}"))
    hs = set(hist)
    still = any(s in hs or syms.count(s) > 1 for s in syms)
    redraws = len(ireq) - 1
    if still and redraws != P:
        v.append(("gave-up-early", f"result {syms} still contains a repeat after only {redraws} of {P} passes"))
    return v


def explore_cell(cell):
    cols, hname, B, P, first = cell["cols"], cell["hist"], cell["B"], cell["P"], tuple(cell["first"])
    hist = HISTORIES[hname]
    pad, loss_kind = cell.get("pad", 0), cell.get("loss_kind", "zeros")
    try:
        sampler = _make_sampler(B, P, cell.get("base", "base"))
    except TypeError:
        if cell.get("base") != "surrogate":
            raise
        # the surrogate base class asks for more than fit/predict in this implementation: the derived stub cannot be built, nothing is judged
        return {"evaluations": 0, "nontrivial": 0, "states": 0, "transitions": 0, "traces": 0, "stats": {"surrogate_stub_not_constructible": 1}, "outcomes": [], "violations": [], "samples": []}
    res = None   # ONE object for the whole cell: state carried from one sample() call to the next would show
    res = {"evaluations": 0, "nontrivial": 0, "states": 0, "transitions": 0, "traces": 0, "stats": {}, "outcomes": set(), "violations": [], "samples": []}
    st = res["stats"]
    stack = [first]
    nsym = 4
    alt = HISTORIES[cell["alt_hist"]] if cell.get("alt_hist") else None
    turn = 0
    hist0 = hist
    while stack:
        script = stack.pop()
        if alt is not None:
            # one sampler object serving two runs in turns: successive calls see two DIFFERENT histories (neither an extension of the other)
            turn += 1
            hist = hist0 if turn % 2 else alt
        impl = impl_run(sampler, script, hist, cols, pad, loss_kind)
        ref = ref_run(canon_script(script, cols), hist, B, P)
        res["transitions"] += 1
        vs = judge(canon_script(script, cols), hist, B, P, cols, impl, ref)
        for key, what in vs:
            if len(res["violations"]) < 5:
                res["violations"].append({"key": key, "what": f"cols={cols} history={hname} B={B} passes={P} script={list(script)}: {what}",
                                          "case": {"cols": cols, "hist": hname, "B": B, "P": P, "script": list(script), "first": list(first), "pad": pad, "loss_kind": loss_kind, "base": cell.get("base", "base"), "alt_hist": cell.get("alt_hist")}})
            st["violating_executions"] = st.get("violating_executions", 0) + 1
        if vs:
            continue
        if impl[0] == "need":
            res["states"] += 1
            for ext in itertools.product(range(nsym), repeat=impl[1]):
                stack.append(script + ext)
            continue
        # leaf: a complete execution
        res["evaluations"] += 1
        res["traces"] += 1
        res["states"] += 1
        redraws = len(impl[2]) - 1
        if redraws:
            res["nontrivial"] += 1
        out_syms = ref[1]
        hs = set(hist)
        still = any(s in hs or out_syms.count(s) > 1 for s in out_syms)
        if still:
            st["budget_exhausted_with_repeat"] = st.get("budget_exhausted_with_repeat", 0) + 1
        if len(set(script[:B])) < B:
            st["in_batch_repeat_in_first_draw"] = st.get("in_batch_repeat_in_first_draw", 0) + 1
        if len(set(hist)) < len(hist):
            st["history_with_repeats"] = st.get("history_with_repeats", 0) + 1
        res["outcomes"].add((tuple(impl[2]), still))
        if len(res["samples"]) < 1 and redraws >= 1:
            res["samples"].append({"cols": cols, "history": hname, "B": B, "passes": P, "script": list(script), "requests": impl[2], "result": out_syms})
    res["outcomes"] = [list(map(str, o)) for o in sorted(res["outcomes"], key=str)]
    res["outcomes"] = [tuple(o) for o in res["outcomes"]]
    return res


def replay_case(case):
    """Re-runs the cell the case came from (one sampler object driven through the same scripts in the same order), so that a
    violation which needs state left by an EARLIER sample() call on the object reproduces; reports what is found for this script."""
    if "first" in case:
        r = explore_cell({"cols": case["cols"], "hist": case["hist"], "B": case["B"], "P": case["P"], "first": case["first"], "pad": case.get("pad", 0),
                          "loss_kind": case.get("loss_kind", "zeros"), "base": case.get("base", "base"), "alt_hist": case.get("alt_hist")})
        return [{"key": v["key"], "what": v["what"]} for v in r["violations"] if v["case"]["script"] == case["script"]]
    hist = HISTORIES[case["hist"]]
    sampler = _make_sampler(case["B"], case["P"])
    script = tuple(case["script"])
    impl = impl_run(sampler, script, hist, case["cols"])
    ref = ref_run(canon_script(script, case["cols"]), hist, case["B"], case["P"])
    return [{"key": k, "what": w} for k, w in judge(canon_script(script, case["cols"]), hist, case["B"], case["P"], case["cols"], impl, ref)]


def main(ctx):
    cells = []
    if ctx.quick:
        budget = {1: range(0, 4), 2: range(0, 3), 3: range(0, 3)}
    else:
        budget = {1: range(0, 7), 2: range(0, 5), 3: range(0, 3)}
    # VERIF_SEED only rotates which history name is enumerated first (order), never what is covered
    hnames = [h for h in HISTORIES if h != "h2only"]   # (h2only serves the alternating-history cells)
    hnames = hnames[ctx.seed % len(hnames):] + hnames[:ctx.seed % len(hnames)]
    for cols in (1, 2, 3, 4):
        for hname in hnames:
            for B, Ps in budget.items():
                for P in Ps:
                    # split big cells by the first draw so that 16 workers share them
                    for first in itertools.product(range(4), repeat=B):
                        cells.append({"cols": cols, "hist": hname, "B": B, "P": P, "first": list(first)})
    if not ctx.quick:
        for first in itertools.product(range(4), repeat=3):
            cells.append({"cols": 1, "hist": "h1h2", "B": 3, "P": 3, "first": list(first)})
    # long histories (rows x columns on both sides of 50 000) with the universe rows buried in them; surrogate-derived samplers on
    # histories whose rows carry NaN / inf losses
    for pad in (9000, 10001, 12345) if ctx.quick else (4095, 9000, 10001, 12345, 20000):
        for first in itertools.product(range(4), repeat=2):
            cells.append({"cols": 5, "hist": "h1h2", "B": 2, "P": 2, "first": list(first), "pad": pad})
    for hname in ("h1", "h1h2", "h1h1h2"):
        for B, P in ((1, 2), (2, 2), (3, 2), (4, 1)):
            for first in itertools.product(range(4), repeat=min(B, 3)):
                cells.append({"cols": 6, "hist": hname, "B": B, "P": P, "first": list(first) + [3] * (B - min(B, 3))})
    for cols in (1, 2):
        for hname, alt in (("h1", "h2only"), ("h1h2", "h1"), ("h2only", "h1h1h2")):
            for B, P in ((1, 2), (2, 2), (3, 1)):
                for first in itertools.product(range(4), repeat=B):
                    cells.append({"cols": cols, "hist": hname, "alt_hist": alt, "B": B, "P": P, "first": list(first)})
    for hname in ("h1", "h1h2", "h1h1h2"):
        for B, P in ((1, 2), (2, 1), (2, 2), (3, 1)):
            for first in itertools.product(range(4), repeat=B):
                for lk in ("nonfinite", "zeros"):
                    cells.append({"cols": 2, "hist": hname, "B": B, "P": P, "first": list(first), "base": "surrogate", "loss_kind": lk})
    cells.sort(key=lambda c: -(4 ** (c["B"] * c["P"])) * (50 if c.get("pad") else 1))
    ctx.bounds = {"universe": "h1,h2 (history), f1,f2 (fresh); rows as 1 column, 2 columns sharing coordinates, 2 columns at scale 2.5e5 (distinct but relatively close), 2 columns where two symbols are the same point with zeros of opposite sign", "histories": list(HISTORIES),
                  "batch_size->pass budgets": {str(k): [min(v), max(v)] for k, v in budget.items()}, "cells": len(cells)}
    ctx.rule = ("systematic exploration of generator answers: every execution that asks for k more rows is extended by all 4^k tuples; "
                "evaluations = complete executions (leaves), each standing for all scripts that extend its consumed prefix; "
                "non-trivial = at least one redraw pass happened")
    ctx.assumptions = ["reference model of the dedup loop written from the docstring/property (vf/checks/c12.py:ref_run)"]
    ctx.pmap("vf.checks.c12:explore_cell", cells, chunksize=4)
    ctx.require(ctx.stats.get("budget_exhausted_with_repeat", 0) > 0, "no budget-exhausted case")
    ctx.require(ctx.stats.get("in_batch_repeat_in_first_draw", 0) > 0, "no in-batch repeat case")
    ctx.require(ctx.stats.get("history_with_repeats", 0) > 0, "no history with repeats")
    ctx.require(ctx.nontrivial > 1000, "too few executions with redraws")
