"""C18 - sampler labels in a history can always be mapped back to sampler names (E2).

BFS over histories {calibrate(1), set_samplers(L), set_scheduler(RoundRobin(L)), restore} with a saving folder (states are real
objects branched by deepcopy + folder copy, deduplicated on the canonical state). After every transition:
  1. ids are never reassigned, ids are unique;
  2. every method_samp[i] is the live id of the class whose object produced row i (from the logged sample() calls);
  3. after every checkpoint the calibrator wrote, plot_results._get_samplers_names(F, ids) names every id in method_samp correctly;
  4. after restore, samplers_id_table equals the saved one.
A reference model of the table (dense first-seen numbering, appended on replacement) tells histories where a correct
implementation would ALSO fail because the table is not persisted (known finding) from anything else.
"""
from __future__ import annotations

import copy
import shutil

import numpy as np

from vf.core import quiet
from vf.opseq import cal as C

ID = "C18"
TITLE = "Sampler labels in a history can always be mapped back to sampler names"
LINEUPS = [["Halton"], ["RandomUniform"], ["RandomUniform", "Halton"], ["Halton", "RandomUniform"], ["RSequence", "Halton"], ["RandomUniform", "RandomUniform", "Halton"],
           ["RandomUniform", "Halton", "RSequence"], ["BestBatch", "RSequence"]]


def cname(short):
    return C.sampler_class(short).__name__


def ref_construct(classes):
    t = {}
    for c in classes:
        if c not in t:
            t[c] = len(t)
    return t


def ref_update(table, classes):
    t = dict(table)
    nxt = max(t.values()) + 1
    for c in classes:
        if c not in t:
            t[c] = nxt
            nxt += 1
    return t


def make_lineup(short_names):
    return [C.make_sampler({"cls": c, "bs": 1 + i % 2}) for i, c in enumerate(short_names)]


def check_node(node, wrote, restored_from=None):
    """node: dict(live, folder, producers [class name per row], ref_table, saved_table, hist). Returns [(key, what)]."""
    import black_it.plot.plot_results as pr

    v = []
    live, F = node["live"], node["folder"]
    table = dict(live.samplers_id_table)
    ref_live = node["ref_table"]
    # would a CORRECT in-memory table also be unrecoverable from the checkpoint? judged on the line-up the USER set last
    # (not on what the implementation's scheduler holds now, which a defect may have reordered)
    persist_matters = ref_construct(node.get("ref_lineup") or [type(s).__name__ for s in live.scheduler.samplers]) != ref_live
    # 1. never reassigned / unique
    for cls, i in node["first_ids"].items():
        if table.get(cls) != i:
            key = "id-table-not-persisted" if restored_from is not None and persist_matters else "id-reassigned"
            v.append((key, f"class {cls} had id {i}, the table now says {table.get(cls)} (table {table})"))
    if len(set(table.values())) != len(table):
        v.append(("id-not-unique", f"two classes share an id: {table}"))
    # 2. labels identify the producing class
    ms = np.asarray(live.method_samp).tolist()
    if len(ms) != len(node["producers"]):
        v.append(("label-count", f"{len(ms)} labels for {len(node['producers'])} produced rows"))
    else:
        for i, (lab, cls) in enumerate(zip(ms, node["producers"])):
            if table.get(cls) != lab:
                if restored_from is not None and persist_matters:
                    v.append(("id-table-not-persisted", f"after restore, row {i} produced by {cls} carries label {lab} but the rebuilt table says {table}"))
                else:
                    v.append(("label-wrong-class", f"row {i} was produced by {cls} but carries label {lab}; table {table}"))
                break
    # 3. plot helper names every stored id
    if wrote and len(ms):
        ids = sorted(set(ms))
        inv = {}
        for cls, lab in zip(node["producers"], ms):
            inv.setdefault(lab, cls)
        try:
            with quiet():
                names = pr._get_samplers_names(str(F), ids)  # noqa: SLF001
            bad = [(i, n, inv[i]) for i, n in zip(ids, names) if n != inv[i]]
            if bad:
                key = "id-table-not-persisted" if persist_matters and table == ref_live else "plot-names-wrong"
                v.append((key, f"plot helper maps ids {ids} to {names}, the rows were produced by {[inv[i] for i in ids]} (live table {table})"))
        except Exception as e:  # noqa: BLE001
            key = "id-table-not-persisted" if persist_matters and table == ref_live and isinstance(e, KeyError) else "plot-cannot-read-checkpoint"
            v.append((key, f"plot helper raised {type(e).__name__}: {e} for ids {ids} (live table {table})"))
    # 4. restore gives back the saved table
    if restored_from is not None and table != restored_from:
        key = "id-table-not-persisted" if persist_matters else "restored-table-differs"
        v.append((key, f"samplers_id_table after restore is {table}, the saved calibrator had {restored_from}"))
    return v


def bfs(cell):
    res = {"evaluations": 0, "nontrivial": 0, "states": 0, "transitions": 0, "traces": 0, "stats": {}, "outcomes": set(), "violations": [], "samples": []}
    init, depth = cell["init"], cell["depth"]

    def viol(key, what, hist):
        if sum(1 for x in res["violations"] if x["key"] == key) < 1:
            res["violations"].append({"key": key, "what": f"[initial {init} ops={hist}] {what}", "case": {"init": init, "ops": list(hist), "seed": cell["seed"]}})
        res["stats"]["violating:" + key] = res["stats"].get("violating:" + key, 0) + 1

    ops = ["c1", "r"] + [f"ss:{i}" for i in cell["lineups"]] + [f"sc:{i}" for i in cell["lineups"]]
    with C.scratch() as root:
        cnt = [0]

        def new_dir(src=None):
            cnt[0] += 1
            d = root / f"n{cnt[0]}"
            if src is not None:
                shutil.copytree(src, d)
            else:
                d.mkdir()
            return d

        d0 = new_dir()
        cfg = {"lineup": [{"cls": c, "bs": 1 + i % 2} for i, c in enumerate(init)], "seed": cell["seed"], "dims": 2, "model": "const2", "ensemble": 1, "saving_folder": str(d0 / "F")}
        live = C.build(cfg)
        t0 = ref_construct([cname(c) for c in init])
        node0 = {"live": live, "dir": d0, "folder": d0 / "F", "producers": [], "ref_table": t0, "ref_lineup": [cname(c) for c in init], "first_ids": dict(live.samplers_id_table), "saved_table": None, "hist": []}
        for key, what in check_node(node0, False):
            viol(key, what, [])
        frontier = [node0]
        seen = set()
        for _level in range(depth):
            nxt = []
            for nd in frontier:
                for op in ops:
                    if op == "r" and nd["saved_table"] is None:
                        continue
                    if op != "c1" and nd["hist"] and nd["hist"][-1] == op:
                        continue
                    d2 = new_dir(nd["dir"])
                    F2 = d2 / "F"
                    l2 = copy.deepcopy(nd["live"])
                    l2.saving_folder = str(F2)
                    n2 = dict(nd, live=l2, dir=d2, folder=F2, hist=nd["hist"] + [op], producers=list(nd["producers"]), first_ids=dict(nd["first_ids"]))
                    wrote, restored_from = False, None
                    res["transitions"] += 1
                    try:
                        if op == "c1":
                            rec = C.Recorder()
                            with rec, quiet():
                                l2.calibrate(1)
                            for c in rec.sample_calls:
                                n2["producers"] += [c["cls"]] * len(c["out"])
                            wrote = True
                            n2["saved_table"] = dict(l2.samplers_id_table)
                        elif op == "r":
                            l2 = C.restore(F2, {"model": "const2"})
                            l2.saving_folder = str(F2)
                            n2["live"] = l2
                            restored_from = nd["saved_table"]
                            # the history on disk may be older than the live one: producers of the saved rows
                            n2["producers"] = n2["producers"][:len(l2.method_samp)] if len(l2.method_samp) <= len(n2["producers"]) else n2["producers"]
                            n2["ref_table"] = dict(nd["saved_ref_table"])
                            n2["ref_lineup"] = list(nd["saved_ref_lineup"])
                            n2["first_ids"] = {k: v for k, v in nd["saved_first_ids"].items()}
                        else:
                            names = LINEUPS[int(op[3:])]
                            samplers = make_lineup(names)
                            with quiet():
                                if op.startswith("ss:"):
                                    l2.set_samplers(samplers)
                                else:
                                    from black_it.schedulers.round_robin import RoundRobinScheduler

                                    l2.set_scheduler(RoundRobinScheduler(samplers))
                            n2["ref_table"] = ref_update(nd["ref_table"], [cname(c) for c in names])
                            n2["ref_lineup"] = [cname(c) for c in names]
                    except ValueError as e:
                        if "best-batch sampler requires" in str(e):
                            continue  # operation not enabled in this state
                        viol("operation-raises:" + op.split(":")[0], f"{type(e).__name__}: {e}", n2["hist"])
                        continue
                    except Exception as e:  # noqa: BLE001
                        viol("operation-raises:" + op.split(":")[0], f"{type(e).__name__}: {e}", n2["hist"])
                        continue
                    for cls, i in n2["live"].samplers_id_table.items():
                        n2["first_ids"].setdefault(cls, i)
                    if wrote:
                        n2["saved_ref_table"] = dict(n2["ref_table"])
                        n2["saved_ref_lineup"] = list(n2["ref_lineup"])
                        n2["saved_first_ids"] = dict(n2["first_ids"])
                    res["evaluations"] += 1
                    if op != "c1":
                        res["nontrivial"] += 1
                    vs = check_node(n2, wrote, restored_from)
                    for key, what in vs:
                        viol(key, what, n2["hist"])
                    if wrote:
                        res["traces"] += 1
                    if vs:
                        continue
                    key = (tuple(sorted(n2["live"].samplers_id_table.items())), tuple(type(s).__name__ for s in n2["live"].scheduler.samplers), tuple(n2["producers"]),
                           tuple(sorted((n2["saved_table"] or {}).items())), n2["live"].current_batch_index, getattr(n2["live"].scheduler, "_batch_id", 0) % max(1, len(n2["live"].scheduler.samplers)))
                    if key in seen:
                        continue
                    seen.add(key)
                    nxt.append(n2)
            frontier = nxt
        res["states"] = len(seen)
        leaves = [nd["hist"] for nd in frontier]
    # straight-line re-execution of the maximal histories, each inside ONE folder that is looked at after every step
    # (the BFS copies the folder at every transition, which would hide state kept per folder path by a helper)
    for hist in leaves[: cell.get("max_leaves", 60)]:
        for v in replay_case({"init": init, "ops": hist, "seed": cell["seed"]}):
            viol(v["key"], "(straight-line, single folder) " + v["what"], hist)
        res["evaluations"] += 1
        res["traces"] += 1
        res["stats"]["straight_line_histories"] = res["stats"].get("straight_line_histories", 0) + 1
    res["outcomes"] = [("init", tuple(init), len(seen))]
    res["samples"] = [{"initial": init, "example_history": frontier[0]["hist"] if frontier else []}]
    return res


def legend_case(case):
    """The user-facing end of the id table: plot_sampling(F) draws the saved run with one legend entry per sampler id. Every entry
    (marker of id i, text t) must say t = name of the class that produced the rows labelled i - for small runs and for runs of
    thousands of rows (a thinned or re-ordered frame must not re-pair ids and names)."""
    import matplotlib

    matplotlib.use("Agg")
    import matplotlib.pyplot as plt

    import black_it.plot.plot_results as pr

    v = []
    with C.scratch() as root:
        F = root / "F"
        cfg = {"lineup": [{"cls": c, "bs": case["bs"]} for c in case["lineup"]], "seed": case.get("seed", 0), "dims": 2, "model": case.get("model", "const2"), "ensemble": 1, "saving_folder": str(F),
               "precision": 0.0001}
        if case.get("decoys"):
            # the folder is not empty: back-ups, compressed siblings, the sampler list of a pre-0.3 release, an SQLite checkpoint - all
            # valid files of ANOTHER run
            from vf.checks.c04 import _plant_decoys

            other = C.build(dict(cfg, saving_folder=str(root / "donor"), seed=5))   # (_plant_decoys stores its line-up REVERSED as the legacy sampler list)
            with quiet():
                other.calibrate(2)
            _plant_decoys(F, root / "donor", other)
        live = C.build(cfg)
        rec = C.Recorder()
        with rec, quiet():
            live.calibrate(case["batches"])
        if case.get("decoys"):
            try:
                rest = C.restore(F, cfg)
                if dict(rest.samplers_id_table) != dict(live.samplers_id_table) or [type(s).__name__ for s in rest.scheduler.samplers] != [type(s).__name__ for s in live.scheduler.samplers]:
                    v.append(("restored-table-differs", f"a run saved into a folder that also holds foreign files restores with the table {dict(rest.samplers_id_table)} / line-up {[type(s).__name__ for s in rest.scheduler.samplers]}; "
                              f"the calibrator had {dict(live.samplers_id_table)} / {[type(s).__name__ for s in live.scheduler.samplers]}"))
            except Exception as e:  # noqa: BLE001
                v.append(("plot-cannot-read-checkpoint", f"restore from a folder that also holds foreign files raised {type(e).__name__}: {e}"))
        inv = {}
        for c, lab in zip([c["cls"] for c in rec.sample_calls for _ in range(len(c["out"]))], np.asarray(live.method_samp).tolist()):
            inv.setdefault(int(lab), c)
        try:
            with quiet():
                (pr.plot_convergence if case.get("plot") == "convergence" else pr.plot_sampling)(str(F))
            leg = plt.gca().get_legend() or (plt.gcf().legends[-1] if plt.gcf().legends else None)
            handles = list(getattr(leg, "legend_handles", None) or getattr(leg, "legendHandles", []))
            texts = [t.get_text() for t in leg.get_texts()]
            # the hue value a handle stands for is the label seaborn gave it (the id as a string); a legend built some other way
            # (no such labels) is not judged
            ids = sorted(inv)
            pairs = []
            extra = []
            for h, t in zip(handles, texts):
                lab = str(h.get_label())
                if case.get("plot") == "convergence" and lab == "min loss":
                    extra.append(t)
                    continue
                pairs.append((int(float(lab)) if lab.replace(".", "", 1).isdigit() else None, t))
            if case.get("plot") == "convergence" and extra != ["min loss"] and not any(i is None for i, _ in pairs):
                v.append(("legend-names-wrong", f"plot_convergence: the running-minimum curve is labelled {extra}, the sampler entries are {pairs}"))
            if any(i is None or i not in inv for i, _ in pairs) or (len(pairs) != len(ids) and not (case.get("plot") == "convergence" and len(texts) == len(handles) and len(pairs) < len(ids))):
                return ["unjudged"]
            if len(pairs) != len(ids):
                v.append(("legend-names-wrong", f"the legend names {len(pairs)} of the {len(ids)} sampler ids of the run: {pairs}"))
            else:
                bad = [(i, t, inv[i]) for i, t in pairs if t != inv[i]]
                if bad:
                    v.append(("legend-names-wrong", f"plot_sampling labels (id, text) = {pairs}; the rows were produced by {inv} ({len(live.method_samp)} rows)"))
        except Exception as e:  # noqa: BLE001
            v.append(("plot-cannot-read-checkpoint", f"plot_sampling raised {type(e).__name__}: {e}"))
        finally:
            plt.close("all")
    return v


def legend_cell(cell):
    res = {"evaluations": 0, "nontrivial": 0, "states": 0, "transitions": 0, "traces": 0, "stats": {}, "outcomes": set(), "violations": [], "samples": []}
    for case in cell["cases"]:
        vs = legend_case(case)
        res["evaluations"] += 1
        res["transitions"] += 1
        if vs == ["unjudged"]:
            res["stats"]["legends_not_readable_not_judged"] = res["stats"].get("legends_not_readable_not_judged", 0) + 1
            continue
        res["stats"]["legends_read"] = res["stats"].get("legends_read", 0) + 1
        for key, what in vs:
            if sum(1 for x in res["violations"] if x["key"] == key) < 1:
                res["violations"].append({"key": key, "what": f"[{case['lineup']} x batch size {case['bs']} x {case['batches']} batches] {what}", "case": dict(case, legend=True)})
    res["states"] = res["evaluations"]
    return res


def run_cell(cell):
    return legend_cell(cell) if cell.get("kind") == "legend" else bfs(cell)


def replay_case(case):
    """Straight-line re-execution of one history."""
    if case.get("legend"):
        return [{"key": k, "what": w} for k, w in [x for x in legend_case(case) if x != "unjudged"]]
    init, ops = case["init"], case["ops"]
    out = []
    with C.scratch() as root:
        F = root / "F"
        cfg = {"lineup": [{"cls": c, "bs": 1 + i % 2} for i, c in enumerate(init)], "seed": case.get("seed", 0), "dims": 2, "model": "const2", "ensemble": 1, "saving_folder": str(F)}
        live = C.build(cfg)
        node = {"live": live, "folder": F, "producers": [], "ref_table": ref_construct([cname(c) for c in init]), "first_ids": dict(live.samplers_id_table), "saved_table": None,
                "ref_lineup": [cname(c) for c in init]}
        saved = {}
        for i, op in enumerate(ops):
            wrote, restored_from = False, None
            try:
                if op == "c1":
                    rec = C.Recorder()
                    with rec, quiet():
                        node["live"].calibrate(1)
                    for c in rec.sample_calls:
                        node["producers"] += [c["cls"]] * len(c["out"])
                    wrote = True
                    node["saved_table"] = dict(node["live"].samplers_id_table)
                elif op == "r":
                    restored_from = node["saved_table"]
                    node["live"] = C.restore(F, {"model": "const2"})
                    node["producers"] = node["producers"][:len(node["live"].method_samp)]
                    node["ref_table"] = dict(saved["ref_table"])
                    node["first_ids"] = dict(saved["first_ids"])
                    node["ref_lineup"] = list(saved["ref_lineup"])
                else:
                    names = LINEUPS[int(op[3:])]
                    samplers = make_lineup(names)
                    with quiet():
                        if op.startswith("ss:"):
                            node["live"].set_samplers(samplers)
                        else:
                            from black_it.schedulers.round_robin import RoundRobinScheduler

                            node["live"].set_scheduler(RoundRobinScheduler(samplers))
                    node["ref_table"] = ref_update(node["ref_table"], [cname(c) for c in names])
                    node["ref_lineup"] = [cname(c) for c in names]
            except Exception as e:  # noqa: BLE001
                return [{"key": "operation-raises:" + op.split(":")[0], "what": f"{type(e).__name__}: {e}"}]
            for cls, k in node["live"].samplers_id_table.items():
                node["first_ids"].setdefault(cls, k)
            if wrote:
                saved = {"ref_table": dict(node["ref_table"]), "first_ids": dict(node["first_ids"]), "ref_lineup": list(node["ref_lineup"])}
            vs = check_node(node, wrote, restored_from)
            if vs:
                out = [{"key": k, "what": w} for k, w in vs]
                break
    return out


def main(ctx):
    depth = 4 if ctx.quick else 6
    cells = []
    lids = list(range(len(LINEUPS)))
    for init in (["Halton", "RandomUniform"], ["RandomUniform", "RandomUniform", "Halton"], ["RSequence"], ["Halton", "BestBatch"]):
        for part in range(4):
            cells.append({"init": init, "depth": depth, "lineups": lids[part::4] if ctx.quick else lids[part::2], "seed": ctx.seed})
    ctx.bounds = {"legends": "plot_sampling on saved runs of 12 and 6000 rows (thorough: up to 10400)", "depth": depth, "initial_lineups": 4, "replacement_lineups": LINEUPS, "ops": ["calibrate(1)", "set_samplers(L)", "set_scheduler(RoundRobin(L))", "restore"]}
    ctx.rule = "BFS over histories with state deduplication; evaluations = transitions executed and judged; non-trivial = replacement / restore transitions; traces = checkpoints read back through the plotting helper"
    ctx.assumptions = ["reference model of the id table: dense first-seen numbering, appended on replacement; the property itself only requires stability and uniqueness",
                       "known finding id-table-not-persisted is attributed only when a correct implementation of the in-memory table would fail in the same way"]
    lg = [{"lineup": ["Halton", "RandomUniform", "RSequence"], "bs": 2, "batches": 6}, {"lineup": ["RandomUniform", "Halton"], "bs": 3, "batches": 4},
          {"lineup": ["Halton", "RandomUniform", "RSequence"], "bs": 1000, "batches": 6}]
    nine = ["Halton", "RandomUniform", "RSequence", "BestBatch", "ParticleSwarm", "XGBoost", "RandomForest", "GaussianProcess", "CORS"]
    lg += [{"lineup": ["Halton", "RandomUniform", "RSequence"], "bs": 2, "batches": 5, "decoys": True}, {"lineup": ["RSequence", "Halton"], "bs": 1, "batches": 3, "decoys": True, "plot": "convergence"},
           {"lineup": ["Halton", "RandomUniform", "RSequence"], "bs": 2, "batches": 6, "plot": "convergence"}, {"lineup": nine, "bs": 2, "batches": 18, "plot": "convergence", "model": "gauss2"},
           {"lineup": nine[:8], "bs": 2, "batches": 8, "plot": "convergence", "model": "gauss2"}, {"lineup": nine, "bs": 2, "batches": 9, "plot": "sampling", "model": "gauss2"}]
    if not ctx.quick:
        lg += [{"lineup": ["RSequence", "RandomUniform"], "bs": 2600, "batches": 4}, {"lineup": ["Halton", "RandomUniform", "RSequence"], "bs": 1667, "batches": 3}]
    for c in lg:
        cells.insert(0, {"kind": "legend", "cases": [c]})
    ctx.pmap("vf.checks.c18:run_cell", cells)
    ctx.require(ctx.stats.get("legends_read", 0) + ctx.stats.get("legends_not_readable_not_judged", 0) >= 3, "plot_sampling was not exercised")
    ctx.require(ctx.traces > 100, "too few checkpoints read back")
    ctx.require(ctx.nontrivial > 300, "too few replacement/restore transitions")
