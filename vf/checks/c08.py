"""C08 - the loss interface is pure, weight-linear and coordinate-symmetric (E4, relational, explicit-state over evaluation histories).

For every built-in loss (several option vectors) and three user-defined single-coordinate losses plugged into BaseLoss:
 1. inputs are byte-identical after the call and the loss object's canonical __dict__ is unchanged;
 2. EVERY sequence of <= 3 evaluations drawn from a menu of 4 inputs (different lengths / ensemble sizes) on ONE object returns,
    for each input, the value a fresh object returns (history independence);
 3. compute_loss == sum_i w_i * compute_loss_1d(filtered_i, real_i)   (classes using the base compute_loss);
 4. a zero weight equals dropping the coordinate; permuting coordinates together with weights and filters changes nothing;
 5. every permutation of the ensemble axis leaves the value unchanged;
 6. Minkowski / Fourier / MSM identity+inverse-variance >= 0; Minkowski / Fourier / MSM-identity ~ 0 when every member equals the real data;
 7. weight or filter lists of every wrong length raise ValueError.
"""
from __future__ import annotations

import itertools

import numpy as np

from vf.canon import canon

ID = "C08"
TITLE = "The loss interface is pure, weight-linear and coordinate-symmetric"
TOL = 1e-12


def negate(x):
    return -x


def cumsum(x):
    return np.cumsum(x)


def double(x):
    return 2.0 * x


def last_four(ts):
    return ts[-4:]


def halve(x):
    return x * 0.5   # non-integer output on integer-typed input


FILTERS = {"negate": negate, "cumsum": cumsum, "double": double, "halve": halve, None: None}


def stub_classes():
    from black_it.loss_functions.base import BaseLoss

    class SumAbs(BaseLoss):
        def compute_loss_1d(self, sim, real):
            return float(np.sum(np.abs(np.mean(sim, axis=0) - real)))

    class MaxAbs(BaseLoss):
        def compute_loss_1d(self, sim, real):
            return float(np.max(np.abs(np.mean(sim, axis=0) - real)))

    class Mismatches(BaseLoss):
        def compute_loss_1d(self, sim, real):
            return float(np.sum(np.mean(sim, axis=0) != real))

    return {"stub_sumabs": SumAbs, "stub_maxabs": MaxAbs, "stub_mismatch": Mismatches}


def make(name, o, weights=None, filters=None):
    from black_it.loss_functions.fourier import FourierLoss, gaussian_low_pass_filter, ideal_low_pass_filter
    from black_it.loss_functions.gsl_div import GslDivLoss
    from black_it.loss_functions.likelihood import LikelihoodLoss
    from black_it.loss_functions.minkowski import MinkowskiLoss
    from black_it.loss_functions.msm import MethodOfMomentsLoss

    w = None if weights is None else np.array(weights)   # a list of Python ints stays an INTEGER array (e.g. a 0/1 mask typed by hand)
    f = None if filters is None else [FILTERS[x] for x in filters]
    if name == "minkowski":
        return MinkowskiLoss(p=o.get("p", 2), coordinate_weights=w, coordinate_filters=f)
    if name == "fourier":
        return FourierLoss(frequency_filter=ideal_low_pass_filter if o.get("kind") == "ideal" else gaussian_low_pass_filter, f=o.get("f", 0.8), coordinate_weights=w, coordinate_filters=f)
    if name == "gsl":
        return GslDivLoss(nb_values=o.get("nb_values"), nb_word_lengths=o.get("nb_word_lengths"), coordinate_weights=w, coordinate_filters=f)
    if name == "msm":
        kw = {}
        if o.get("calc") == "view":
            kw["moment_calculator"] = last_four      # returns a VIEW of the series it is given
        elif o.get("calc") == "asarray":
            kw["moment_calculator"] = np.asarray     # returns its argument itself
        return MethodOfMomentsLoss(covariance_mat=o.get("cov", "identity"), coordinate_weights=w, coordinate_filters=f, standardise_moments=o.get("std", False), **kw)
    if name == "likelihood":
        import warnings

        with warnings.catch_warnings():
            warnings.simplefilter("ignore")
            return LikelihoodLoss(coordinate_weights=w, coordinate_filters=f, h=o.get("h", "silverman"))
    return stub_classes()[name](w, f)


def series(T, k):
    t = np.arange(T, dtype=float)
    return [((t * 3 + k) % 5) * 0.5, np.where((t + k) % 3 == 0, 2.0, 1.0) + 0.1 * k, (t * t + k) % 7, np.sin(t + k) + 2.0, np.full(T, 1.0 + k) + (t % 2) * 0.25][k % 5]


def dataset(E, T, D, shift=0):
    sim = np.stack([np.stack([series(T, e + 2 * d + shift) for d in range(D)], axis=1) for e in range(E)])
    real = np.stack([series(T, 7 + d + shift) for d in range(D)], axis=1)
    return sim, real


def menu(D):
    return [dataset(1, 8, D), dataset(2, 9, D, 1), dataset(3, 8, D, 2), dataset(2, 12, D, 3)]


def ev(loss, sim, real):
    import warnings

    with warnings.catch_warnings(), np.errstate(all="ignore"):
        warnings.simplefilter("ignore")
        try:
            return float(loss.compute_loss(sim, real))
        except Exception as e:  # noqa: BLE001  (no evaluation of the menu raises on a correct tree; reported by check_config)
            RAISED.append(f"{type(e).__name__}: {e}")
            return float("nan")


RAISED: list = []


UNDEFINED = [0]


def same(a, b, tol=TOL):
    if a != a or b != b or abs(a) == float("inf") or abs(b) == float("inf"):
        UNDEFINED[0] += 1  # a value that is undefined by definition (0/0 standardisation, log 0, ...) on one side: not asserted either way
        return True
    return abs(a - b) <= tol * max(1.0, abs(a), abs(b))


MAXLEN = [3]


def check_config(name, o, D, res, viol):
    base_compute = name != "likelihood"
    wsets = [None] + ([[1.0, 0.0], [0.3, 0.7], [2, 1], [1, 0]] if D == 2 else [[2.0], [3]])
    fsets = [None] + ([["double", None], ["cumsum", "negate"], [None, "halve"]] if D == 2 else [["cumsum"], ["halve"]])
    M0 = menu(D)
    # the same simulated numbers typed as integers (counts from an agent-based model), with a real-valued filter on a later coordinate
    MI = [(np.round(s_ * 8.0).astype(np.int64), r_ * 8.0) for s_, r_ in M0]
    combos = [(w, f, M0) for w in wsets for f in fsets] + [(w, f, MI) for w in (None, wsets[1]) for f in fsets if f and "halve" in f]
    for w, f, M in combos:
        if True:
            case = {"loss": name, "opts": o, "D": D, "weights": w, "filters": f}
            tag = f"{name}{o} D={D} weights={w} filters={f}" + (" sim_dtype=int64" if M is MI else "")
            if RAISED:
                viol("compute-loss-raises:" + name, f"{name}{o} D={D}: compute_loss raised on a well-formed input: {RAISED[0]}", case)
                del RAISED[:]
            fresh = []
            for sim, real in M:
                fresh.append(ev(make(name, o, w, f), sim, real))
            # 1. purity
            loss = make(name, o, w, f)
            before = canon(vars(loss))
            for (sim, real), val in zip(M, fresh):
                s0, r0 = sim.tobytes(), real.tobytes()
                ev(loss, sim, real)
                res["evaluations"] += 1
                if sim.tobytes() != s0 or real.tobytes() != r0:
                    viol("input-modified:" + name, f"{tag}: compute_loss modified its {'simulated' if sim.tobytes() != s0 else 'real'} input", case)
                    sim[...] = np.frombuffer(s0).reshape(sim.shape)
            if canon(vars(loss)) != before:
                viol("loss-object-state-changed:" + name, f"{tag}: the loss object's attributes changed through evaluations ({[k for k in vars(loss) if canon(vars(loss)[k]) != dict(before[1]).get(k)]})", case)
            # 1b. real data with missing observations (NaN) or +-inf: whatever the loss makes of them (a value, NaN or an exception),
            #     the caller's arrays come back untouched
            for bad in (np.nan, np.inf):
                sim_b, real_b = M[3][0].astype(float).copy(), M[3][1].copy()
                real_b[[2, 5], -1] = bad
                real_b[7, 0] = -bad if bad == bad else bad
                s0, r0 = sim_b.tobytes(), real_b.tobytes()
                try:
                    with np.errstate(all="ignore"):
                        make(name, o, w, f).compute_loss(sim_b, real_b)
                except Exception:  # noqa: BLE001
                    pass
                res["evaluations"] += 1
                if sim_b.tobytes() != s0 or real_b.tobytes() != r0:
                    viol("input-modified:" + name, f"{tag}: compute_loss modified its {'simulated' if sim_b.tobytes() != s0 else 'real'} input when the real data contain {bad}", case)
            # 2. history independence: every sequence of <= 3 evaluations
            for L in range(1, (MAXLEN[0] + 1 if name != "msm" else 4) if M is M0 else 2):
                for seq in itertools.product(range(4), repeat=L):
                    loss = make(name, o, w, f)
                    for i in seq:
                        got = ev(loss, *M[i])
                        res["transitions"] += 1
                        if not same(got, fresh[i], 1e-13):
                            viol("depends-on-earlier-evaluations:" + name, f"{tag}: after evaluating inputs {list(seq[:seq.index(i)])} input #{i} gives {got!r}, a fresh object gives {fresh[i]!r}", dict(case, seq=list(seq)))
                            break
                    res["evaluations"] += 1
                    res["traces"] += 1
                    if L > 1:
                        res["nontrivial"] += 1
            # 2b. the SAME real-data buffer refilled in place between two evaluations (a rolling window): the second value must be
            #     what a fresh object gives on the new content
            loss = make(name, o, w, f)
            sim_a, real_a = M[0]
            buf = real_a.copy()
            ev(loss, sim_a, buf)
            buf[...] = M[2][1][:buf.shape[0]] * 1.5 + 0.25
            got = ev(loss, sim_a, buf)
            want = ev(make(name, o, w, f), sim_a, buf.copy())
            res["evaluations"] += 1
            if not same(got, want, 1e-13):
                viol("depends-on-earlier-evaluations:" + name, f"{tag}: after the real-data buffer was refilled in place the loss is {got!r}, a fresh object gives {want!r}", dict(case, seq="refill"))
            sim, real = M[1]
            E = sim.shape[0]
            ww = np.ones(D) / D if w is None else np.array(w, dtype=float)
            ff = [None] * D if f is None else [FILTERS[x] for x in f]
            # 3. weight linearity
            if base_compute:
                lo = make(name, o, w, f)
                tot = 0.0
                for i in range(D):
                    col = sim[:, :, i] if ff[i] is None else np.array([ff[i](sim[e, :, i]) for e in range(E)])
                    with np.errstate(all="ignore"):
                        try:
                            tot += ww[i] * float(make(name, o).compute_loss_1d(col, real[:, i]))
                        except Exception as e:  # noqa: BLE001
                            RAISED.append(f"compute_loss_1d: {type(e).__name__}: {e}")
                            tot = float("nan")
                res["evaluations"] += 1
                if not same(fresh[1], tot):
                    viol("not-weight-linear:" + name, f"{tag}: compute_loss = {fresh[1]!r}, sum_i w_i * compute_loss_1d(filtered_i) = {tot!r}", case)
                # 4a. zero weight == dropping the coordinate
                if D == 2 and w is not None and w[1] == 0.0:
                    v1 = ev(make(name, o, [w[0]], None if f is None else [f[0]]), sim[:, :, :1], real[:, :1])
                    res["evaluations"] += 1
                    if not same(fresh[1], v1):
                        viol("zero-weight-not-dropping:" + name, f"{tag}: value {fresh[1]!r} with a zero weight, {v1!r} with the coordinate removed", case)
            # 4b. permuting coordinates with weights and filters
            if D == 2:
                wp = None if w is None else [w[1], w[0]]
                fp = None if f is None else [f[1], f[0]]
                vp = ev(make(name, o, wp, fp), sim[:, :, ::-1].copy(), real[:, ::-1].copy())
                res["evaluations"] += 1
                if not same(fresh[1], vp):
                    viol("coordinate-order-matters:" + name, f"{tag}: {fresh[1]!r} vs {vp!r} after permuting the coordinates together with weights and filters", case)
            # 5. ensemble permutations (E = 3)
            sim3, real3 = M[2]
            for perm in itertools.permutations(range(3)):
                vp = ev(make(name, o, w, f), sim3[list(perm)].copy(), real3)
                res["evaluations"] += 1
                if not same(fresh[2], vp):
                    viol("ensemble-order-matters:" + name, f"{tag}: {fresh[2]!r} vs {vp!r} for member order {perm}", case)
                    break
            # 6. sign and identity (weights must be non-negative for the sign clause: all of ours are)
            if name in ("minkowski", "fourier") or (name == "msm" and o.get("cov", "identity") in ("identity", "inverse_variance")):
                for val in fresh:
                    if val == val and val < 0:
                        viol("negative-loss:" + name, f"{tag}: value {val!r} < 0", case)
                if f is None and (name != "msm" or o.get("cov", "identity") == "identity"):
                    for E2 in (1, 3):
                        eq = np.stack([real] * E2)
                        vz = ev(make(name, o, w, f), eq, real)
                        res["evaluations"] += 1
                        scale = max(1.0, float(np.max(np.abs(real))))
                        if vz == vz and not (abs(vz) <= 1e-12 * scale * real.shape[0]):
                            viol("nonzero-at-identity:" + name, f"{tag}: value {vz!r} when all {E2} members equal the real data", case)
    # 7. wrong lengths
    sim, real = menu(D)[0]
    for n in range(0, D + 3):
        if n == D:
            continue
        for what in ("weights", "filters"):
            kw = {"weights": [1.0] * n} if what == "weights" else {"filters": [None] * n}
            if name == "likelihood" and what == "weights":
                continue  # documented: weights are ignored by the likelihood loss
            res["evaluations"] += 1
            try:
                with np.errstate(all="ignore"):
                    make(name, o, **kw).compute_loss(sim, real)
                viol(f"wrong-length-{what}-accepted:" + name, f"{name}{o} D={D}: {what} of length {n} accepted", {"loss": name, "opts": o, "D": D, "weights": kw.get("weights"), "filters": kw.get("filters")})
            except ValueError:
                pass
            except Exception as e:  # noqa: BLE001
                viol(f"wrong-length-{what}-other-exception:" + name, f"{name}{o} D={D}: {what} of length {n} raised {type(e).__name__} instead of ValueError", {"loss": name, "opts": o, "D": D, "weights": kw.get("weights"), "filters": kw.get("filters")})


CONFIGS = [
    ("minkowski", {"p": 1}), ("minkowski", {"p": 2}), ("minkowski", {"p": 3}),
    ("fourier", {"kind": "ideal", "f": 0.5}), ("fourier", {"kind": "gaussian", "f": 0.8}), ("fourier", {"kind": "gaussian", "f": 1.0}),
    ("gsl", {"nb_values": 3, "nb_word_lengths": 2}), ("gsl", {"nb_values": None, "nb_word_lengths": None}), ("gsl", {"nb_values": 4, "nb_word_lengths": 3}),
    ("msm", {"cov": "identity", "std": False}), ("msm", {"cov": "inverse_variance", "std": False}), ("msm", {"cov": "identity", "std": True}),
    ("msm", {"cov": "identity", "std": True, "calc": "view"}), ("msm", {"cov": "identity", "std": False, "calc": "asarray"}), ("msm", {"cov": "inverse_variance", "std": True, "calc": "view"}),
    ("likelihood", {"h": "silverman"}), ("likelihood", {"h": "scott"}), ("likelihood", {"h": 0.5}),
    ("stub_sumabs", {}), ("stub_maxabs", {}), ("stub_mismatch", {}),
]


def run_cell(cell):
    del RAISED[:]
    res = {"evaluations": 0, "nontrivial": 0, "states": 0, "transitions": 0, "traces": 0, "stats": {}, "outcomes": set(), "violations": [], "samples": []}

    def viol(key, what, case):
        if sum(1 for x in res["violations"] if x["key"] == key) < 1:
            res["violations"].append({"key": key, "what": what[:700], "case": case})

    MAXLEN[0] = cell.get("maxlen", 3)
    for name, o, D in cell["configs"]:
        check_config(name, o, D, res, viol)
        if RAISED:
            viol("compute-loss-raises:" + name, f"{name}{o} D={D}: compute_loss raised on a well-formed input: {RAISED[0]}", {"loss": name, "opts": o, "D": D, "weights": None, "filters": None})
            del RAISED[:]
        res["outcomes"].add((name, D))
    res["stats"]["undefined_by_definition"] = UNDEFINED[0]
    UNDEFINED[0] = 0
    res["states"] = res["traces"]
    res["samples"] = [{"loss": cell["configs"][0][0], "options": cell["configs"][0][1], "menu": "4 inputs (E,T) = (1,8),(2,9),(3,8),(2,12)"}]
    res["outcomes"] = sorted(res["outcomes"])
    return res


def replay_case(case):
    found = []
    res = {"evaluations": 0, "nontrivial": 0, "transitions": 0, "traces": 0}
    del RAISED[:]
    check_config(case["loss"], case["opts"], case["D"], res, lambda k, w, c: found.append({"key": k, "what": w}))
    if RAISED:
        found.append({"key": "compute-loss-raises:" + case["loss"], "what": RAISED[0]})
        del RAISED[:]
    return found


def main(ctx):
    cells = [{"configs": [(n, o, D)], "maxlen": 3 if ctx.quick else 4} for n, o in CONFIGS for D in (1, 2)]
    ctx.bounds = {"losses": [c[0] + str(c[1]) for c in CONFIGS], "coordinates": [1, 2], "weights": [None, [1.0, 0.0], [0.3, 0.7], [2.0], "integer-typed [2, 1], [1, 0], [3]"], "moment_calculators": ["default", "a view of the series", "the series itself"], "filters": [None, ["double", None], ["cumsum", "negate"], ["cumsum"]],
                  "evaluation_sequences": "all sequences of length <= 3 (84; thorough <= 4: 340, moments <= 3) over a menu of 4 inputs", "ensemble_permutations": "all 6 for E = 3"}
    ctx.rule = "every (loss configuration, D, weights, filters) x every clause; non-trivial = evaluation sequences of length >= 2"
    ctx.assumptions = ["LikelihoodLoss overrides compute_loss and documents that weights are ignored: clauses 3, 4a and the weight-length clause are not applied to it",
                       "values compared with relative tolerance 1e-12 (1e-13 for history independence)"]
    ctx.pmap("vf.checks.c08:run_cell", cells)
    ctx.require(ctx.traces > 5000, "too few evaluation sequences")
