"""C15 - search-space specifications are validated and discretised as documented (E4).

Exhaustive enumeration of list/array shaped specifications over a value lattice for up to three
parameters, plus a scale lattice of well-formed specs, against a reference of the documented check
order, error payloads and grid rule (exact rational arithmetic on the given doubles).
"""
from __future__ import annotations

import itertools
import math
from fractions import Fraction

import numpy as np

ID = "C15"
TITLE = "Search-space specifications are validated and discretised as documented"
CAP = 100_000  # the property's own bound on range/precision
HARD_CAP = 400_000  # np.arange requests above this are intercepted (a mutant that stops validating must not eat the machine)


class GridTooLarge(Exception):
    pass


class _NpProxy:
    """Stands in for the name `np` inside black_it.search_space: only arange is intercepted."""

    def __init__(self, real):
        self._real = real

    def __getattr__(self, name):
        return getattr(self._real, name)

    def arange(self, *a, **kw):
        # a size guard only (whatever calling convention the implementation uses: arange(n), arange(a, b), arange(a, b, step))
        start, stop, step = (0, a[0], 1) if len(a) == 1 else (a[0], a[1], 1) if len(a) == 2 else (a[0], a[1], a[2]) if len(a) >= 3 else (kw.get("start", 0), kw.get("stop", 0), kw.get("step", 1))
        try:
            n = (float(stop) - float(start)) / float(step)
        except ZeroDivisionError:
            n = float("inf")
        except (TypeError, ValueError):
            n = 0.0
        if not (n == n) or n > HARD_CAP:
            raise GridTooLarge(f"arange({start},{stop},{step}) ~ {n} elements")
        return self._real.arange(*a, **kw)


def _install_proxy():
    import black_it.search_space as ss

    import numpy as real_np

    if hasattr(ss, "np"):
        if not isinstance(ss.np, _NpProxy):
            ss.np = _NpProxy(ss.np)
    elif getattr(ss, "arange", None) is real_np.arange:
        # `from numpy import arange` style: guard the bare name instead
        ss.arange = _NpProxy(real_np).arange
    return ss


# ---------------------------------------------------------------------------------------------
# reference
# ---------------------------------------------------------------------------------------------
def ref_validate(bounds, precision):
    """Return None if the documented checks pass, else (class name, {attr: value})."""
    if len(bounds) != 2:
        return ("BoundsNotOfSizeTwoError", {"count_bounds_subarrays": len(bounds)})
    if len(bounds[0]) != len(bounds[1]):
        return ("BoundsOfDifferentLengthError", {"lower_bounds_length": len(bounds[0]), "upper_bounds_length": len(bounds[1])})
    if len(precision) != len(bounds[0]):
        return ("BadPrecisionLengthError", {"precisions_length": len(precision), "bounds_length": len(bounds[0])})
    for i in range(len(precision)):
        lo, up, p = float(bounds[0][i]), float(bounds[1][i]), float(precision[i])
        if lo == up:
            return ("SameLowerAndUpperBoundError", {"param_index": i, "bound_value": lo})
        if lo > up:
            return ("LowerBoundGreaterThanUpperBoundError", {"param_index": i, "lower_bound": lo, "upper_bound": up})
        if p == 0:
            return ("PrecisionZeroError", {"param_index": i})
        if Fraction(p) > Fraction(up) - Fraction(lo):
            # the documented comparison is made in floats: precision > (upper - lower)
            if p > (up - lo):
                return ("PrecisionGreaterThanBoundsRangeError", {"param_index": i, "lower_bound": lo, "upper_bound": up, "precision": p})
        elif p > (up - lo):
            return ("PrecisionGreaterThanBoundsRangeError", {"param_index": i, "lower_bound": lo, "upper_bound": up, "precision": p})
    return None


def ulp(x):
    return math.ulp(max(abs(x), 5e-324))


def scale_class(lo, up, p):
    out = []
    if max(abs(lo), abs(up)) >= 2**30:
        out.append("upper>=2^30")
    if p <= 1e-7:
        out.append("precision<=1e-7")
    return ",".join(out) or "ordinary"


def judge_grid(lo, up, p, grid):
    """Oracle for one well-formed parameter; returns list of (key, what) and a tag for statistics."""
    v = []
    L, U, P = Fraction(lo), Fraction(up), Fraction(p)
    n = len(grid)
    sc = scale_class(lo, up, p)
    scale = max(abs(lo), abs(up), abs(float(grid[0])) if n else 0.0, abs(float(grid[-1])) if n else 0.0)
    if n == 0:
        return [("grid-empty:" + sc, f"empty grid for ({lo},{up},{p})")], "empty"
    if grid[0] != lo:
        v.append(("grid-first-element:" + sc, f"grid starts at {grid[0]!r}, lower bound is {lo!r}"))
    # elements: lower + k*precision (numpy's arange accumulates start + i*delta; tolerance (k+2) ulp of the scale)
    for k in (0, 1, 2, n // 2, n - 2, n - 1):
        if 0 <= k < n:
            exact = L + k * P
            if abs(Fraction(float(grid[k])) - exact) > (k + 2) * Fraction(ulp(scale)):
                v.append(("grid-element:" + sc, f"grid[{k}] = {grid[k]!r}, expected {float(exact)!r} for ({lo},{up},{p})"))
                break
    if n >= 3:
        d = np.diff(grid)
        if float(np.max(d) - np.min(d)) > 4 * ulp(scale):
            v.append(("grid-not-even:" + sc, f"steps range from {np.min(d)!r} to {np.max(d)!r}"))
    # documented length: floor((upper + 1e-7 - lower)/precision) + 1, judged away from the rounding edge
    q = (U + Fraction(1e-7) - L) / P
    fq = math.floor(q)
    frac = q - fq
    # rounding of upper+1e-7 and of the quotient in floats moves q by about ulp(scale)/precision: not judged that close to an integer
    edge = min(frac, 1 - frac) < Fraction(1, 10**6) + 8 * Fraction(ulp(scale)) / P or float(up) + 1e-7 == float(up)
    tag = "edge" if edge else "plain"
    if not edge and n != fq + 1:
        v.append(("grid-length:" + sc, f"{n} elements for ({lo},{up},{p}); documented rule gives {fq + 1}"))
    # statement: ends at the last step not beyond the upper bound
    last_exact = L + (n - 1) * P
    if last_exact - U >= P * Fraction(999999, 1000000):
        v.append(("grid-overshoot:" + sc, f"last element {grid[-1]!r} is {float(last_exact - U):.3g} beyond the upper bound {up!r} (step {p!r}): whole steps past the bound"))
    # statement: the bound itself when the range is a multiple of the precision (nominal/decimal reading)
    try:
        Ln, Un, Pn = Fraction(repr(lo)), Fraction(repr(up)), Fraction(repr(p))
        m = (Un - Ln) / Pn
        if m.denominator == 1:
            tag += "+multiple"
            # one-sided: the grid stops short of the bound (going past it is the overshoot clause)
            if U - Fraction(float(grid[-1])) > max(Fraction(1e-7), (n + 2) * Fraction(ulp(scale))):
                v.append(("grid-endpoint:" + sc, f"range is {int(m)} steps exactly but the grid ends at {grid[-1]!r}, not at the upper bound {up!r}"))
    except (ValueError, ZeroDivisionError):
        pass
    # never stops short: one more step must be beyond the bound (up to the documented tolerance and rounding)
    nxt = L + n * P
    if nxt <= U - (n + 2) * Fraction(ulp(scale)) and not edge:
        v.append(("grid-stops-short:" + sc, f"grid ends at {grid[-1]!r} although {float(nxt)!r} is still within the upper bound {up!r}"))
    return v, tag


def run_spec(bounds, precision, as_array=False):
    """Construct the real SearchSpace and compare with the reference. Returns (violations, outcome tag)."""
    ss = _install_proxy()
    b, p = bounds, precision
    if as_array:
        b, p = np.array(bounds, dtype=float), np.array(precision, dtype=float)
    exp = ref_validate(bounds, precision)
    # decide whether it is safe/meaningful to construct
    judged = True
    if exp is None:
        for i in range(len(precision)):
            lo, up, pr = float(bounds[0][i]), float(bounds[1][i]), float(precision[i])
            if pr < 0:
                judged = False
            elif (up - lo) / pr > CAP:
                return [], "skipped-by-cap"
    try:
        sp = ss.SearchSpace(b, p, verbose=False)
        got = None
    except ss.SearchSpaceError as e:
        got = (type(e).__name__, {k: v for k, v in vars(e).items()})
        sp = None
    except GridTooLarge as e:
        got = ("<accepted:huge-grid>", {})
        sp = None
    except Exception as e:  # noqa: BLE001
        got = (f"<{type(e).__name__}>", {"msg": str(e)[:80]})
        sp = None
    v = []
    if exp is not None:
        if got is None:
            v.append(("accepted-malformed:" + exp[0], f"spec bounds={bounds} precision={precision} accepted; expected {exp[0]}"))
        elif got[0] != exp[0]:
            v.append(("wrong-exception:" + exp[0], f"spec bounds={bounds} precision={precision}: raised {got[0]}, documented order gives {exp[0]}"))
        else:
            for k, val in exp[1].items():
                if k not in got[1] or not (got[1][k] == val):
                    v.append(("payload:" + exp[0], f"{exp[0]}.{k} = {got[1].get(k)!r}, expected {val!r} for bounds={bounds} precision={precision}"))
        return v, "rejected:" + exp[0]
    if not judged:
        return [], "unjudged-negative-precision:" + ("raised" if got else "accepted")
    if got is not None:
        v.append(("rejected-wellformed", f"spec bounds={bounds} precision={precision} raised {got[0]} {got[1]}"))
        return v, "wellformed"
    d = len(precision)
    if d == 0:
        return [], "unjudged-zero-parameters"
    if sp.dims != d:
        v.append(("dims", f"dims={sp.dims}, expected {d}"))
    if len(sp.param_grid) != d:
        v.append(("grid-count", f"{len(sp.param_grid)} grids for {d} parameters"))
        return v, "wellformed"
    size = 1
    tags = []
    for i in range(d):
        g = np.asarray(sp.param_grid[i])
        gv, tag = judge_grid(float(bounds[0][i]), float(bounds[1][i]), float(precision[i]), g)
        v += gv
        tags.append(tag)
        size *= len(g)
    if sp.space_size != size:
        v.append(("space-size", f"space_size={sp.space_size}, product of grid lengths {size}"))
    if not (np.array_equal(np.asarray(sp.parameters_bounds, dtype=float), np.asarray(bounds, dtype=float))
            and np.array_equal(np.asarray(sp.parameters_precision, dtype=float), np.asarray(precision, dtype=float))):
        v.append(("stored-spec", "parameters_bounds/parameters_precision differ from the input"))
    if as_array and not v:
        # the caller's own arrays are handed over (no copy): they must come back untouched, and using them for further constructions
        # (a repeated study) must give the same space every time
        if not (np.array_equal(b, np.array(bounds, dtype=float)) and np.array_equal(p, np.array(precision, dtype=float))):
            v.append(("input-modified", f"constructing the space modified the caller's arrays: bounds {b.tolist()} / precision {p.tolist()} for the specification bounds={bounds} precision={precision}"))
        else:
            for rep in range(2, 5):
                sp2 = ss.SearchSpace(b, p, verbose=False)
                if (sp2.space_size != sp.space_size or any(not np.array_equal(np.asarray(g1), np.asarray(g2)) for g1, g2 in zip(sp.param_grid, sp2.param_grid))
                        or not np.array_equal(np.asarray(sp2.parameters_bounds, dtype=float), np.asarray(bounds, dtype=float)) or not np.array_equal(b, np.array(bounds, dtype=float))):
                    v.append(("depends-on-earlier-constructions", f"construction #{rep} from the same arrays gives another space (or modifies them): bounds now {b.tolist()}, stored {np.asarray(sp2.parameters_bounds).tolist()} for bounds={bounds} precision={precision}"))
                    break
    return v, "wellformed:" + "|".join(sorted(set(tags)))


# ---------------------------------------------------------------------------------------------
V = [-2.0, -1.0, -0.5, 0.0, 0.5, 1.0, 2.0, 1e-9]
V3 = [-1.0, 0.0, 1.0, 2.0]


def _new_res():
    return {"evaluations": 0, "nontrivial": 0, "states": 0, "transitions": 0, "traces": 0, "stats": {}, "outcomes": set(), "violations": [], "samples": []}


def _feed(res, bounds, precision, as_array=False):
    vs, tag = run_spec(bounds, precision, as_array)
    res["evaluations"] += 1
    res["transitions"] += 1
    res["traces"] += 1
    res["stats"][tag.split(":")[0]] = res["stats"].get(tag.split(":")[0], 0) + 1
    res["outcomes"].add(tag)
    if not tag.startswith("wellformed:plain") or len(precision) > 1:
        res["nontrivial"] += 1
    for key, what in vs:
        res["stats"]["violating"] = res["stats"].get("violating", 0) + 1
        if sum(1 for x in res["violations"] if x["key"] == key) < 2:
            res["violations"].append({"key": key, "what": what, "case": {"bounds": [list(map(float, x)) for x in bounds] if all(hasattr(x, "__len__") for x in bounds) else bounds,
                                                                           "precision": list(map(float, precision)), "as_array": as_array}})


def cell_values(cell):
    res = _new_res()
    d = cell["d"]
    vals = V if d <= 2 else V3
    triples = list(itertools.product(vals, repeat=3))
    first = [tuple(t) for t in cell["first"]]
    for t0 in first:
        for rest in itertools.product(triples, repeat=d - 1):
            ts = (t0, *rest)
            bounds = [[t[0] for t in ts], [t[1] for t in ts]]
            precision = [t[2] for t in ts]
            _feed(res, bounds, precision, as_array=cell.get("as_array", False))
    res["states"] = res["evaluations"]
    res["samples"] = [{"bounds": [[-0.5, 0.0], [1.0, 0.0]], "precision": [0.5, 1.0], "expected": "SameLowerAndUpperBoundError(param_index=1)"}]
    res["outcomes"] = sorted(res["outcomes"])
    return res


def cell_shapes(cell):
    res = _new_res()
    good = (0.0, 1.0, 0.5)
    bad_vals = {"good": good, "same": (1.0, 1.0, 0.5), "inverted": (1.0, 0.0, 0.5), "zero": (0.0, 1.0, 0.0), "big": (0.0, 1.0, 2.0)}
    for nb in range(0, 4):
        for lens in itertools.product(range(0, 4), repeat=nb):
            for lp in range(0, 4):
                for kind, (lo, up, pr) in bad_vals.items():
                    fills = [lo, up, lo]
                    bounds = [[fills[j]] * ln for j, ln in enumerate(lens)]
                    precision = [pr] * lp
                    _feed(res, bounds, precision, as_array=False)
                    if nb >= 1 and len(set(lens)) == 1:
                        _feed(res, bounds, precision, as_array=True)
    res["states"] = res["evaluations"]
    res["outcomes"] = sorted(res["outcomes"])
    return res


def cell_scale(cell):
    res = _new_res()
    for lo in cell["lowers"]:
        for p in [1.0, 0.25, 0.1, 1.0 / 3.0, 1e-3, 3e-5, 1e-7, 1e-8, 0.7, 12.5]:
            for ratio in [1, 2, 3.5, 10, 29.5, 1e3, 99999, 1e5]:
                up = lo + ratio * p
                _feed(res, [[lo], [up]], [p])
                _feed(res, [[lo, 0.0], [up, 1.0]], [p, 0.01], as_array=True)
    # decimal-literal specs users actually write
    for lo, up, p in [(0, 1, 0.01), (0, 1, 0.3), (-1, 1, 0.1), (0, 0.95, 0.1), (-3.3, 7.1, 0.7), (1000, 1001, 0.25), (5, 6, 1 / 3), (-2, -1, 0.125),
                      (0, 1, 0.07), (0, 10, 3), (0.01, 1.0, 0.01), (0, 0.3, 0.1), (0, 1e6, 1e5 / 3), (-1e-3, 1e-3, 3e-4), (0, 2**30, 2**20), (2**30, 2**30 + 8, 1.0),
                      (0, 1e-3, 1e-8), (0.0, 0.05, 0.0005), (0.0, 1.0, 1e-5), (1.0, 2.0, 1e-5), (0.6, 0.9, 0.1), (0.1, 0.7, 0.2)]:
        _feed(res, [[float(lo)], [float(up)]], [float(p)])
    res["states"] = res["evaluations"]
    res["samples"] = [{"bounds": [[0.0], [0.95]], "precision": [0.1], "expected_grid_length": 10}]
    res["outcomes"] = sorted(res["outcomes"])
    return res


def cell_bigproduct(cell):
    """Well-formed spaces whose size exceeds 2^63 (many parameters at the cap range/precision <= 1e5)."""
    res = _new_res()
    for d, ratio in ((4, 1e5), (5, 1e4), (7, 1e3), (10, 100), (20, 10), (64, 1)):
        for lo, p in ((0.0, 1.0), (-5.0, 0.5)):
            bounds = [[lo] * d, [lo + ratio * p] * d]
            _feed(res, bounds, [p] * d)
            _feed(res, bounds, [p] * d, as_array=True)
    res["states"] = res["evaluations"]
    res["outcomes"] = sorted(res["outcomes"])
    return res


def run_cell(cell):
    return {"values": cell_values, "shapes": cell_shapes, "scale": cell_scale, "bigproduct": cell_bigproduct}[cell["kind"]](cell)


def replay_case(case):
    vs, _ = run_spec(case["bounds"], case["precision"], case.get("as_array", False))
    return [{"key": k, "what": w} for k, w in vs]


def main(ctx):
    cells = [{"kind": "shapes"}, {"kind": "bigproduct"}]
    t8 = list(itertools.product(V, repeat=3))
    t4 = list(itertools.product(V3, repeat=3))
    cells.append({"kind": "values", "d": 1, "first": t8})
    cells.append({"kind": "values", "d": 1, "first": t8, "as_array": True})
    step = 8 if ctx.quick else 4
    for i in range(0, len(t8), step):
        cells.append({"kind": "values", "d": 2, "first": t8[i:i + step]})
    if not ctx.quick:
        for i in range(0, len(t8), 8):
            cells.append({"kind": "values", "d": 2, "first": t8[i:i + 8], "as_array": True})
    for i in range(0, len(t4), 2 if ctx.quick else 1):
        cells.append({"kind": "values", "d": 3, "first": t4[i:i + (2 if ctx.quick else 1)]})
    lowers = [0.0, -7.5, 1e3, -1e6, float(2**30), 1e10, float(ctx.seed) + 0.5]
    if not ctx.quick:
        lowers += [0.1, -0.3, 1.0 / 3.0, 123.456, -1e-3, 1e-6, 5e5, -2.0**20, 7e7, 2.0**29, -1e9, 3.3e4]
    for lo in lowers:
        cells.append({"kind": "scale", "lowers": [lo]})
    ctx.bounds = {"value_lattice_1_2_params": V, "value_lattice_3_params": V3, "scale_lowers": lowers, "cap_range_over_precision": CAP,
                  "shapes": "0..3 sub-lists of lengths 0..3, precision length 0..3, lists and arrays"}
    ctx.rule = ("every (lower, upper, precision) triple over the value lattice for 1, 2 and 3 parameters, every shape combination, and a scale lattice; "
                "non-trivial = anything but a single plain well-formed parameter")
    ctx.assumptions = ["reference: documented check order and payloads; grid length floor((upper+1e-7-lower)/precision)+1 judged away from rounding edges (1e-6 of an integer); "
                       "negative precisions and zero-parameter specs recorded, not judged"]
    ctx.pmap("vf.checks.c15:run_cell", cells)
    for cls in ["BoundsNotOfSizeTwoError", "BoundsOfDifferentLengthError", "BadPrecisionLengthError", "SameLowerAndUpperBoundError",
                "LowerBoundGreaterThanUpperBoundError", "PrecisionZeroError", "PrecisionGreaterThanBoundsRangeError"]:
        ctx.require(any(str(o) == "rejected:" + cls for o in ctx.outcomes), f"no spec rejected with {cls}")
    ctx.require(any("multiple" in str(o) for o in ctx.outcomes), "no well-formed spec whose range is a multiple of the precision")
    ctx.require(ctx.stats.get("wellformed", 0) > 1000, "too few well-formed specs")
