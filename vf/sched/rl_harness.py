"""Harness that runs the real RLScheduler / CalibrationEnv / agents (and optionally the real
Calibrator.calibrate) under the controlled-thread explorer. Shared by C09, C10, C11."""
from __future__ import annotations

import sys

import numpy as np

from vf.core import digest, quiet
from vf.sched import vthreads as vt

_installed = False
L0 = 10.0
LOSS_SCRIPTS = {
    "improving": [9.0, 8.0, 7.0, 6.0, 5.0, 4.0, 3.0, 2.0, 1.0, 0.5],
    "never": [11.0, 12.0, 13.0, 14.0, 15.0, 16.0, 17.0, 18.0, 19.0, 20.0],
    "mixed": [8.0, 9.0, 6.0, 7.0, 6.0, 3.0, 4.0, 2.0, 2.0, 1.0],
    "to_zero": [4.0, 0.0, 3.0, 0.0, 1.0, 2.0, 0.0, 5.0, 1.0, 0.0],
    # batches whose every simulation diverged (best loss of the batch +inf / NaN): no improvement, reward 0, the exchange goes on
    "with_inf": [8.0, float("inf"), 6.0, float("inf"), float("inf"), 3.0, float("inf"), 2.0, 2.0, float("inf")],
    "with_nan": [8.0, float("nan"), 6.0, float("nan"), float("nan"), 3.0, float("nan"), 2.0, 2.0, float("nan")],
}


class HarnessBroken(Exception):
    pass


def install():
    """Idempotent: replace queue.Queue / threading.Thread as seen by the RL scheduler modules, and make the
    two attributes shared between the threads scheduling points."""
    global _installed
    if _installed:
        return
    import queue
    import threading

    import black_it.schedulers.rl.envs.base as eb
    import black_it.schedulers.rl.envs.mab as mab
    import black_it.schedulers.rl.rl_scheduler as rs

    n_q = n_t = 0
    for mod in (eb, mab, rs):
        for k, v in list(vars(mod).items()):
            if v is queue.Queue:
                setattr(mod, k, vt.VQueue)
                n_q += 1
            elif v is threading.Thread:
                setattr(mod, k, vt.VThread)
                n_t += 1
            elif v is threading:
                setattr(mod, k, vt.ThreadingProxy())
                n_t += 1
            elif v is queue:
                setattr(mod, k, vt.QueueProxy())
                n_q += 1
            elif v is threading.Event:
                setattr(mod, k, vt.VEvent)
            elif v is threading.Lock or v is threading.RLock:
                setattr(mod, k, vt.VLock)
    if n_q == 0 or n_t == 0:
        raise HarnessBroken(f"could not find the Queue ({n_q}) / Thread ({n_t}) seams in black_it.schedulers.rl")
    rs.RLScheduler._stopped = vt.SharedAttr("_stopped", True)  # noqa: SLF001
    eb.CalibrationEnv._curr_best_loss = vt.SharedAttr("_curr_best_loss", None)  # noqa: SLF001
    _installed = True


# ---------------------------------------------------------------------------------------------
def make_agent(spec, n_actions, log):
    from black_it.schedulers.rl.agents.base import Agent
    from black_it.schedulers.rl.agents.epsilon_greedy import MABEpsilonGreedy

    if spec["kind"] == "scripted":
        class Scripted(Agent):
            def __init__(self, script):
                super().__init__(random_state=0)
                self.script, self.i = list(script), 0

            def policy(self, state):  # noqa: ARG002
                a = self.script[self.i % len(self.script)] % n_actions
                self.i += 1
                log.append(("policy", int(a)))
                return int(a)

            def learn(self, state, action, reward, next_state):  # noqa: ARG002
                log.append(("learn", int(action), float(reward)))

        return Scripted(spec["script"])

    class Logged(MABEpsilonGreedy):
        def policy(self, obs):
            a = super().policy(obs)
            log.append(("policy", int(a)))
            return a

        def learn(self, state, action, reward, next_state):
            log.append(("learn", int(action), float(reward)))
            return super().learn(state, action, reward, next_state)

    return Logged(n_actions=n_actions, alpha=spec.get("alpha", -1), eps=spec["eps"], initial_values=spec.get("init", 0.0), random_state=spec["seed"])


def make_samplers(which):
    from black_it.samplers.halton import HaltonSampler
    from black_it.samplers.r_sequence import RSequenceSampler
    from black_it.samplers.random_uniform import RandomUniformSampler

    if which == "with_halton":
        return [RandomUniformSampler(batch_size=1), HaltonSampler(batch_size=1)]
    if which == "halton_first":
        return [HaltonSampler(batch_size=2), RandomUniformSampler(batch_size=1)]
    if which == "without_halton":
        return [RandomUniformSampler(batch_size=1), RSequenceSampler(batch_size=1)]
    if which == "three":
        return [RandomUniformSampler(batch_size=1), HaltonSampler(batch_size=1), RSequenceSampler(batch_size=2)]
    raise ValueError(which)


def build(cfg, log):
    from black_it.samplers.halton import HaltonSampler
    from black_it.schedulers.rl.envs.mab import MABCalibrationEnv
    from black_it.schedulers.rl.rl_scheduler import RLScheduler

    install()
    vt.reset_registry()
    samplers = make_samplers(cfg["samplers"])
    n = len(samplers) + (0 if any(type(s) is HaltonSampler for s in samplers) else 1)
    _virtualise_class_level_queues(MABCalibrationEnv)
    env = MABCalibrationEnv(n)
    agent = make_agent(cfg["agent"], n, log)
    if cfg.get("used_env") is not None and hasattr(env, "_curr_best_loss"):
        # the agent / environment pair has already driven an earlier calibration (its reference best loss is what that run left): a NEW
        # scheduler built on it starts a new calibration - bootstrap batch first, rewards relative to the new run's losses
        env._curr_best_loss = float(cfg["used_env"])  # noqa: SLF001
    sched = RLScheduler(samplers, agent=agent, env=env, random_state=cfg.get("sched_seed", 0))
    if len(vt.VQueue.registry) < 2:
        raise HarnessBroken("the scheduler/environment did not create virtual queues: seam defeated by a refactor")
    return sched, agent, env, samplers


def _virtualise_class_level_queues(cls):
    """An implementation may create its exchange queues once, as class attributes (at import time, before install() could see
    them): give every such attribute a fresh virtual queue for this execution, so that the seam holds and nothing leaks from one
    execution into the next. (Whether two environments alive at once may share queues is outside C10's quantifier.)"""
    import queue as _q

    for klass in cls.__mro__:
        for name, val in list(vars(klass).items()):
            if isinstance(val, (_q.Queue, _q.SimpleQueue, vt.VQueue)):
                setattr(klass, name, vt.VQueue())


def queue_sizes():
    """(messages in the first-created queue, messages in all others): the environment creates the action queue first."""
    qs = vt.VQueue.registry
    return (len(qs[0].items) if qs else 0, sum(len(q.items) for q in qs[1:]))


def halton_index(sched):
    from black_it.samplers.halton import HaltonSampler

    for i, s in enumerate(sched.samplers):
        if type(s) is HaltonSampler:
            return i
    return -1


def _sampler_index(sched, s):
    for i, x in enumerate(sched.samplers):
        if x is s:
            return i
    return -1


def run_protocol(cfg, prefix, mode="sync", horizon=6000, sleep_at=None):
    """One execution of the scheduler/agent exchange, driven exactly as Calibrator.calibrate drives it."""
    log = []
    obs = {"samplers": [], "sessions": [], "error": None, "abort": None, "leaked": [], "thread_exc": None, "log": log, "losses": []}
    with quiet():
        sched, agent, env, samplers = build(cfg, log)
    script = LOSS_SCRIPTS[cfg["losses"]]
    tracer = vt.make_line_tracer(["black_it/schedulers"]) if mode == "line" else None

    def snap(ctl, kind, tid):
        return digest((tuple(tuple(map(repr, q.items)) for q in vt.VQueue.registry),
                       sched.__dict__.get("_vf_shared__stopped"), sched.__dict__.get("_best_loss"), env.__dict__.get("_vf_shared__curr_best_loss"),
                       sched.__dict__.get("_pending_action"), tuple(getattr(agent, "Q", ())), len(log),
                       tuple((t.finished, t.wait_desc) for t in ctl.threads), kind if kind != "line" else None, tid))

    ctl = vt.Controller(prefix, horizon=horizon, snapshot=snap, sleep_at=sleep_at)
    vt.set_controller(ctl, tracer)
    batch = 0
    fault = cfg.get("fault")  # {"session": i, "batch": j, "where": "after_get"|"before_get"}
    try:
        if tracer is not None:
            sys.settrace(tracer)
        for si, nb in enumerate(cfg["shape"]):
            try:
                with sched.session():
                    if len(ctl.threads) < 2:
                        raise HarnessBroken("start_session did not create a virtual thread: seam defeated")
                    for bi in range(nb):
                        if fault and fault["session"] == si and fault["batch"] == bi and fault["where"] == "before_get":
                            raise (InjectedInterrupt if fault.get("kind") == "interrupt" else InjectedFault)("before_get")
                        s = sched.get_next_sampler()
                        obs["samplers"].append(_sampler_index(sched, s))
                        if fault and fault["session"] == si and fault["batch"] == bi and fault["where"] == "after_get":
                            obs["samplers"][-1] = ("aborted", obs["samplers"][-1])
                            raise (InjectedInterrupt if fault.get("kind") == "interrupt" else InjectedFault)("after_get")
                        loss = cfg.get("l0", L0) if batch == 0 else script[(batch - 1) % len(script)]
                        obs["losses"].append(loss)
                        sched.update(batch, np.array([[float(batch)]]), np.array([loss]), None)
                        batch += 1
            except (InjectedFault, InjectedInterrupt) as e:
                obs.setdefault("faults", []).append(str(e))
            qa, qo = queue_sizes()
            obs["sessions"].append({"q_action": qa, "q_outcome": qo, "thread_alive": bool(vt.live_threads())})
    except vt.Abort as e:
        obs["abort"] = str(e)
    except HarnessBroken:
        raise
    except vt.Divergence:
        raise
    except BaseException as e:  # noqa: BLE001
        obs["error"] = f"{type(e).__name__}: {e}"
    finally:
        sys.settrace(None)
        if ctl.aborted and obs["abort"] is None:
            obs["abort"] = ctl.aborted
        ctl.leaked = []
        ctl.finish_main()
        obs["leaked"] = list(ctl.leaked)
        vt.set_controller(None)
    for t in ctl.threads[1:]:
        if t.exc is not None:
            obs["thread_exc"] = f"{type(t.exc).__name__}: {t.exc}"
    if obs["abort"] in ("stop", "sleep-blocked"):
        obs["abort"] = None
    if obs["abort"] and obs["abort"].startswith("watchdog"):
        raise HarnessBroken(obs["abort"])
    obs["n_samplers"] = len(sched.samplers)
    obs["halton_id"] = halton_index(sched)
    obs["final_Q"] = [float(x) for x in getattr(agent, "Q", [])]
    return ctl, obs


class InjectedFault(Exception):
    pass


class InjectedInterrupt(KeyboardInterrupt):
    """Ctrl-C in the middle of a batch: a BaseException that is not an Exception."""


# ---------------------------------------------------------------------------------------------
def reference_rewards(losses):
    """Bandit reference: reward of non-bootstrap batch j given the best loss before it."""
    out = []
    ref = losses[0]
    best = losses[0]
    for l in losses[1:]:
        best = min(best, l)
        if best < ref:
            out.append((ref - best) / ref)
            ref = best
        else:
            out.append(0.0)
    return out


def monitor(obs):
    """Sequential reference monitor for one complete execution. Returns [(key, what)]."""
    v = []
    if obs["abort"] == "deadlock":
        v.append(("deadlock", f"no enabled thread while some thread is unfinished; samplers so far {obs['samplers']}, log {obs['log']}"))
        return v
    if obs["abort"] == "horizon":
        v.append(("livelock-or-horizon", "execution exceeded the horizon of scheduling points"))
        return v
    if obs["error"]:
        v.append(("exception-in-calibration-thread", obs["error"]))
    if obs["thread_exc"]:
        v.append(("exception-in-agent-thread", obs["thread_exc"]))
    if obs["leaked"]:
        v.append(("thread-left-running", f"controlled threads still alive at the end: {obs['leaked']}"))
    for i, s in enumerate(obs["sessions"]):
        if s["q_action"] or s["q_outcome"]:
            v.append(("leftover-message", f"after end of session {i}: {s['q_action']} action(s) and {s['q_outcome']} outcome(s)/marker(s) left in the queues"))
        if s["thread_alive"]:
            v.append(("thread-left-running", f"agent thread alive after end of session {i}"))
    executed = [s for s in obs["samplers"] if not isinstance(s, tuple)]
    if executed and executed[0] != obs["halton_id"]:
        v.append(("bootstrap-not-halton", f"first batch produced by sampler {executed[0]}, Halton is {obs['halton_id']}"))
    ran = executed[1:]
    consumed = [s[1] if isinstance(s, tuple) else s for s in obs["samplers"]][1:]
    learns = [e for e in obs["log"] if e[0] == "learn"]
    pols = [e[1] for e in obs["log"] if e[0] == "policy"]
    # every executed batch was produced by the sampler the agent chose, in order (a batch aborted by a fault after its action was
    # taken does not use up a choice: the agent's choice stays pending and may be executed by the retry)
    it = iter(pols)
    for j, s in enumerate(ran if obs.get("faults") else consumed):
        if not any(p == s for p in it):
            v.append(("sampler-not-chosen-by-agent", f"batch {j + 1} ran sampler {s}, which does not match the agent's choices {pols} in order"))
            break
    # (a choice that was never executed - its batch failed, or the session ended first - may be dropped or carried over: not this property's subject)
    rew = reference_rewards(obs["losses"]) if obs["losses"] else []
    if len(learns) > len(ran):
        v.append(("learn-unexecuted", f"agent learned {len(learns)} times for {len(ran)} executed agent-chosen batches: {learns} vs executed {ran}"))
    elif len(learns) < len(ran):
        v.append(("learn-missing", f"agent learned {len(learns)} times for {len(ran)} executed agent-chosen batches: {learns} vs executed {ran}"))
    for j, (lrn, s) in enumerate(zip(learns, ran)):
        if lrn[1] != s:
            v.append(("reward-misattributed", f"learn #{j} credited action {lrn[1]} but batch {j + 1} was produced by sampler {s}"))
            break
        if abs(lrn[2] - rew[j]) > 1e-12:
            v.append(("reward-wrong", f"learn #{j} for batch {j + 1} got reward {lrn[2]!r}, the batch's outcome gives {rew[j]!r} (losses {obs['losses']})"))
            break
    return v


def outcome(obs):
    return (tuple(repr(s) for s in obs["samplers"]), tuple((e[1], round(e[2], 12)) for e in obs["log"] if e[0] == "learn"))


def controlled(fn, prefix=(), mode="sync", horizon=20000, sleep_at=None, fresh_class_queues=True):
    """Run fn() in the calling thread under a Controller (the RL scheduler's queues/threads are virtual once install()
    has run). Returns (controller, value, exception, leaked thread names)."""
    install()
    if fresh_class_queues:   # (not when the caller has already built its environment: the scheduler holds references to its queues)
        from black_it.schedulers.rl.envs.mab import MABCalibrationEnv

        _virtualise_class_level_queues(MABCalibrationEnv)
    tracer = vt.make_line_tracer(["black_it/schedulers"]) if mode == "line" else None
    ctl = vt.Controller(prefix, horizon=horizon, sleep_at=sleep_at)
    vt.set_controller(ctl, tracer)
    val, exc = None, None
    try:
        if tracer is not None:
            sys.settrace(tracer)
        val = fn()
    except vt.Abort as e:
        exc = e
    except (HarnessBroken, vt.Divergence):
        raise
    except BaseException as e:  # noqa: BLE001
        exc = e
    finally:
        sys.settrace(None)
        ctl.leaked = []
        ctl.finish_main()
        leaked = list(ctl.leaked)
        vt.set_controller(None)
    if ctl.aborted and str(ctl.aborted).startswith("watchdog"):
        raise HarnessBroken(ctl.aborted)
    return ctl, val, exc, leaked


def run_calibrator(cfg, prefix, mode="sync", horizon=40000, sleep_at=None):
    """Second driver: the REAL Calibrator.calibrate (real samplers, model, loss) on the calibration thread, one calibrate() call per
    session of cfg['shape'], under the controller. Produces the same observation structure as run_protocol, so the same monitor applies."""
    from black_it.calibrator import Calibrator
    from black_it.samplers.halton import HaltonSampler
    from black_it.schedulers.rl.envs.mab import MABCalibrationEnv
    from black_it.schedulers.rl.rl_scheduler import RLScheduler

    from vf import models
    from vf.opseq import cal as C

    install()
    log = []
    obs = {"samplers": [], "sessions": [], "error": None, "abort": None, "leaked": [], "thread_exc": None, "log": log, "losses": []}
    vt.reset_registry()
    with quiet():
        samplers = make_samplers(cfg["samplers"])
        n = len(samplers) + (0 if any(type(s) is HaltonSampler for s in samplers) else 1)
        _virtualise_class_level_queues(MABCalibrationEnv)
        env = MABCalibrationEnv(n)
        agent = make_agent(cfg["agent"], n, log)
        sched = RLScheduler(samplers, agent=agent, env=env)
        if cfg.get("loss_script"):
            # losses scripted through the model (C14's device) with a convergence precision: a session may end through the early stop
            from black_it.loss_functions.minkowski import MinkowskiLoss

            models.reset(script=cfg["loss_script"])
            cal = Calibrator(loss_function=MinkowskiLoss(p=1), real_data=np.zeros((1, 1)), model=models.model_script, parameters_bounds=[[0.0], [1.0]], parameters_precision=[0.001],
                             ensemble_size=1, scheduler=sched, sim_length=1, convergence_precision=cfg.get("convergence_precision"), verbose=False, random_state=cfg.get("seed", 0), n_jobs=1)
        else:
            models.reset()
            cal = Calibrator(loss_function=C.make_loss("minkowski"), real_data=C.real_data({}), model=models.gauss2, parameters_bounds=[[0.0, 0.0], [1.0, 1.0]],
                             parameters_precision=[0.05, 0.05], ensemble_size=1, scheduler=sched, verbose=False, random_state=cfg.get("seed", 0), n_jobs=1)
    rec = C.Recorder()

    def go():
        with rec:
            for nb in cfg["shape"]:
                with quiet():
                    cal.calibrate(nb)
                qa, qo = queue_sizes()
                obs["sessions"].append({"q_action": qa, "q_outcome": qo, "thread_alive": bool(vt.live_threads())})

    ctl, _, exc, leaked = controlled(go, prefix, mode=mode, horizon=horizon, sleep_at=sleep_at, fresh_class_queues=False)
    if exc is not None:
        if isinstance(exc, vt.Abort):
            obs["abort"] = str(exc)
        else:
            obs["error"] = f"{type(exc).__name__}: {exc}"
    obs["leaked"] = leaked
    for t in ctl.threads[1:]:
        if t.exc is not None:
            obs["thread_exc"] = f"{type(t.exc).__name__}: {t.exc}"
    obs["samplers"] = [c["index"] for c in rec.sched_calls][:cal.current_batch_index]
    b = np.asarray(cal.batch_num_samp)
    obs["losses"] = [float(np.min(cal.losses_samp[b == k])) for k in range(cal.current_batch_index)]
    obs["n_samplers"] = len(sched.samplers)
    obs["halton_id"] = halton_index(sched)
    obs["final_Q"] = [float(x) for x in getattr(agent, "Q", [])]
    if obs["abort"] in ("stop", "sleep-blocked"):
        obs["abort"] = None
    return ctl, obs
