"""Explorer self-tests on toy programs with known concurrency bugs."""
from __future__ import annotations

from vf.sched import explore as ex
from vf.sched import vthreads as vt


class _S:
    x = vt.SharedAttr("x", 0)
    ready = vt.SharedAttr("ready", False)
    waiting = vt.SharedAttr("waiting", False)


def _run(body, prefix, sleep_at=None):
    ctl = vt.Controller(prefix, horizon=500, sleep_at=sleep_at)
    vt.set_controller(ctl, None)
    out = {"abort": None}
    try:
        out["value"] = body()
    except vt.Abort as e:
        out["abort"] = str(e)
    finally:
        ctl.leaked = []
        ctl.finish_main()
        vt.set_controller(None)
    return ctl, out


def lost_update(prefix, sleep_at=None):
    s = _S()
    s.x = 0

    def inc():
        tmp = s.x
        s.x = tmp + 1

    def body():
        t1, t2 = vt.VThread(target=inc, name="a"), vt.VThread(target=inc, name="b")
        t1.start()
        t2.start()
        t1.join()
        t2.join()
        return s.__dict__.get("_vf_shared_x")

    return _run(body, prefix, sleep_at)


def lost_wakeup(prefix, sleep_at=None):
    s = _S()
    s.ready, s.waiting = False, False
    q = vt.VQueue()

    def setter():
        s.ready = True
        if s.waiting:
            q.put(1)

    def body():
        t = vt.VThread(target=setter, name="setter")
        t.start()
        if not s.ready:
            s.waiting = True
            q.get()
        t.join()
        return "done"

    return _run(body, prefix, sleep_at)


def timed_get(prefix, sleep_at=None):
    """A consumer with a timeout: 'the timer lands first' must be explored, but never be the default answer."""
    import queue as _q

    q = vt.VQueue()
    got = []

    def consumer():
        try:
            got.append(q.get(timeout=5.0))
        except _q.Empty:
            got.append("timeout")

    def body():
        t = vt.VThread(target=consumer, name="consumer")
        t.start()
        q.put("item")
        t.join(timeout=1.0)
        alive = t.is_alive()
        t.join()
        return (got[0] if got else None, alive)

    return _run(body, prefix, sleep_at)


def main() -> int:
    failures = 0
    # 0. waits with a timeout: default execution = no timer lands; exploring finds the timeout and the early return of join
    first = timed_get([])[1]["value"]
    outs = {o["value"] for _, _, o in ex.explore(timed_get, bound=None)}
    pouts = {o["value"] for _, _, o in ex.explore_por(timed_get)}
    want = {("item", False), ("item", True), ("timeout", False)}   # (a consumer that timed out has no further step before its exit)
    if first != ("item", False) or outs != want or pouts != want:
        print(f"selftest E1 timed waits: default {first}, outcomes {outs}, reduced {pouts}, expected {want}")
        failures += 1
    # 1. lost update: not reachable without a preemption, reachable with one; all interleavings give {1, 2}
    for bound, expect in ((0, {2}), (1, {1, 2}), (None, {1, 2})):
        outs = {o["value"] for _, _, o in ex.explore(lost_update, bound=bound)}
        if outs != expect:
            print(f"selftest E1 lost-update: bound {bound} gave outcomes {outs}, expected {expect}")
            failures += 1
    # 2. lost wake-up: deadlock needs exactly one preemption
    for bound, expect_deadlock in ((0, False), (1, True), (None, True)):
        n, dead = 0, 0
        for _, _, o in ex.explore(lost_wakeup, bound=bound):
            n += 1
            dead += o["abort"] == "deadlock"
        if (dead > 0) != expect_deadlock:
            print(f"selftest E1 lost-wake-up: bound {bound}: {dead} deadlocks in {n} executions, expected deadlock={expect_deadlock}")
            failures += 1
    # 3. replaying the same schedule twice gives the same observation
    scheds = [list(c.choices) for _, c, _ in ex.explore(lost_update, bound=2)]
    for sc in scheds[:10]:
        a = lost_update(sc)[1]["value"]
        b = lost_update(sc)[1]["value"]
        if a != b:
            print(f"selftest E1: schedule {sc} not reproducible ({a} vs {b})")
            failures += 1
    # 4. the sleep-set reduction keeps every outcome and the deadlock, with far fewer executions
    full = sum(1 for _ in ex.explore(lost_update, bound=None))
    outs = [o["value"] for _, _, o in ex.explore_por(lost_update)]
    if set(outs) != {1, 2} or not len(outs) < full:
        print(f"selftest E1 POR lost-update: outcomes {set(outs)} in {len(outs)} executions (unreduced {full})")
        failures += 1
    dead = [o["abort"] for _, _, o in ex.explore_por(lost_wakeup)]
    if "deadlock" not in dead:
        print(f"selftest E1 POR lost-wake-up: deadlock not found in {len(dead)} executions")
        failures += 1
    return failures
