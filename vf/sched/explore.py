"""Depth-first exploration of choice prefixes by re-execution, with a preemption (deviation) bound."""
from __future__ import annotations


def preemptions(points, choices) -> int:
    return sum(1 for p, c in zip(points, choices) if p["running_enabled"] and c != 0)


def explore_por(run_one, max_execs=None):
    """All interleavings modulo commutation of independent transitions (sleep sets; no preemption bound - sleep sets and
    bounding do not combine soundly). run_one(prefix, sleep_at) -> (controller, observation). Executions that turn out to be
    equivalent to an explored one are cut ("sleep-blocked") and not yielded."""
    stack = [([], None)]
    n = 0
    explore_por.capped = False
    explore_por.pruned = 0
    while stack:
        prefix, sleep_at = stack.pop()
        ctl, obs = run_one(prefix, sleep_at if sleep_at is not None else (-1, set()))
        if ctl.choices[:len(prefix)] != prefix:
            raise RuntimeError(f"divergence while replaying prefix {prefix}: executed {ctl.choices[:len(prefix)]}")
        if ctl.aborted == "sleep-blocked":
            explore_por.pruned += 1
        else:
            n += 1
            yield prefix, ctl, obs
        if max_execs is not None and n >= max_execs:
            explore_por.capped = bool(stack)
            break
        for i in range(len(ctl.points) - 1, len(prefix) - 1, -1):
            p = ctl.points[i]
            asleep = set(p["sleep"] or [])
            tids = p["enabled_tids"]
            taken = ctl.choices[i]
            explored = {tids[taken]}
            for alt in range(len(tids)):
                if alt == taken or tids[alt] in asleep:
                    continue
                stack.append((ctl.choices[:i] + [alt], (i, asleep | set(explored))))
                explored.add(tids[alt])


explore_por.capped = False
explore_por.pruned = 0


def explore(run_one, bound=None, max_execs=None):
    """run_one(prefix) -> (controller, observation).

    Yields (prefix, controller, observation) for every execution whose number of preemptions is <= bound
    (bound None = all interleavings). Switching away from a thread that is still enabled costs 1; choosing
    among other threads when the running one is blocked or finished is free. Sets explore.capped if max_execs
    stopped the search early.
    """
    stack = [[]]
    n = 0
    capped = False
    while stack:
        prefix = stack.pop()
        ctl, obs = run_one(prefix)
        if ctl.choices[:len(prefix)] != prefix:
            raise RuntimeError(f"divergence while replaying prefix {prefix}: executed {ctl.choices[:len(prefix)]}")
        n += 1
        yield prefix, ctl, obs
        if max_execs is not None and n >= max_execs:
            capped = bool(stack) or any(p["n_enabled"] > 1 for p in ctl.points[len(prefix):])
            break
        base = preemptions(ctl.points[:len(prefix)], ctl.choices[:len(prefix)])
        for i in range(len(ctl.points) - 1, len(prefix) - 1, -1):
            p = ctl.points[i]
            extra = 1 if p["running_enabled"] else 0
            if bound is not None and base + extra > bound:
                continue
            for alt in range(p["n_enabled"] - 1, 0, -1):
                stack.append(ctl.choices[:i] + [alt])
    explore.capped = capped


explore.capped = False
