"""E1 - controlled-thread explorer (stateless, CHESS-style).

Real code runs on real OS threads, but serialised by a baton: exactly one controlled thread runs at
a time; at every *scheduling point* the running thread asks the Controller who runs next. The
Controller replays a prefix of recorded choices and then always takes choice 0 (keep running the
current thread if it is still enabled, else the lowest enabled id). Waiting is modelled as
blocking: a thread whose wait-predicate is false is not enabled, so the execution space is acyclic.

Scheduling points: VQueue.put/get, VThread.start/join, thread exit, reads/writes of registered
shared attributes (data descriptors), and - in line mode - every source line executed inside the
traced files.
"""
from __future__ import annotations

import collections
import sys
import threading as _real_threading
import time

import _thread

_RealThread = _real_threading.Thread


class _Baton:
    """Binary semaphore on a raw lock (much cheaper than threading.Semaphore); release is idempotent."""

    __slots__ = ("lock",)

    def __init__(self):
        self.lock = _thread.allocate_lock()
        self.lock.acquire()

    def release(self):
        try:
            self.lock.release()
        except RuntimeError:
            pass

    def acquire(self, timeout=-1):
        return self.lock.acquire(True, timeout)


def _RealSemaphore(_n=0):
    return _Baton()


class Abort(BaseException):
    """Raised inside controlled threads to unwind an execution (deadlock, horizon, harness stop)."""


class Divergence(Exception):
    """A replayed prefix did not match the execution: hard error."""


def dependent(a, b) -> bool:
    """Conservative dependence of two transition labels (kind, info). Independent pairs commute and do not disable each other:
    queue operations on different queues, reads of a shared attribute, accesses to different shared attributes, purely local
    steps (begin, exit, start, join are ordered by enabledness, not by dependence). Line-granularity points are dependent with everything."""
    ka, ia = a
    kb, ib = b
    if ka == "get~timed":
        ka = "get"   # the timer of a timed get is disabled exactly by a put on the same queue: same dependences as the get itself
    if kb == "get~timed":
        kb = "get"
    if ka == "line" or kb == "line" or ka.endswith("~timed") or kb.endswith("~timed"):
        return True   # other timed waits (join, event, lock) are conservatively dependent with everything
    qops = ("put", "get", "get_nowait", "empty?")
    if ka in qops and kb in qops:
        return ia == ib and not (ka == "empty?" and kb == "empty?")
    sa, sb = ka.split(":", 1), kb.split(":", 1)
    if len(sa) == 2 and len(sb) == 2 and sa[0] in ("read", "write") and sb[0] in ("read", "write"):
        return sa[1] == sb[1] and ("write" in (sa[0], sb[0]))
    if ka.startswith(("event", "lock")) or kb.startswith(("event", "lock")):
        return ka.split(".")[0] == kb.split(".")[0]
    return False


class _TState:
    __slots__ = ("tid", "name", "sem", "finished", "wait", "wait_desc", "real", "exc", "started", "pending", "timed")

    def __init__(self, tid, name):
        self.tid, self.name = tid, name
        self.sem = _RealSemaphore(0)
        self.finished = False
        self.wait = None
        self.wait_desc = None
        self.real = None
        self.exc = None
        self.started = False
        self.timed = False               # the current wait has a timeout: it may also end with its condition still false
        self.pending = ("begin", None)   # label of the transition this thread performs when it is scheduled next


class Controller:
    """One Controller per execution."""

    HANDOFF_TIMEOUT = 20.0
    # A wait with a timeout (Queue.get(timeout=), Thread.join(timeout), Event.wait(timeout)) may end with its condition still
    # false: "the timer lands first" is an environment answer the explorer decides. It is a DEVIATION: taken by default only
    # when nothing else can run, otherwise explored as an alternative at most MAX_TIMEOUTS times per execution.
    MAX_TIMEOUTS = 1

    def __init__(self, prefix=(), horizon=4000, snapshot=None, sleep_at=None):
        # sleep_at = (index of the branching choice point, set of thread ids put to sleep there): sleep-set partial-order reduction
        self.sleep_at = sleep_at
        self.sleep: set = set()
        self.por = sleep_at is not None
        self.prefix = list(prefix)
        self.horizon = horizon
        self.threads: list[_TState] = []
        self.by_ident: dict[int, _TState] = {}
        self.points: list[dict] = []      # one record per *choice* point (>= 2 enabled threads)
        self.choices: list[int] = []
        self.n_points = 0                 # all scheduling points, also forced ones
        self.aborted = None               # None | 'deadlock' | 'horizon' | 'stop'
        self.snapshot = snapshot
        self.state_hashes: list = []
        self.current: _TState | None = None
        self.lock = _real_threading.Lock()
        self.trace_log: list = []
        self.timeouts_fired = 0
        main = _TState(0, "main")
        main.real = _real_threading.current_thread()
        main.started = True
        self.threads.append(main)
        self.by_ident[_real_threading.get_ident()] = main
        self.current = main

    # ------------------------------------------------------------------------------------
    def me(self) -> _TState | None:
        return self.by_ident.get(_real_threading.get_ident())

    def _enabled(self) -> list[_TState]:
        out, timers = [], []
        for t in self.threads:
            if t.finished or not t.started:
                continue
            if t.wait is not None and not t.wait():
                if t.timed:
                    timers.append(t)
                continue
            out.append(t)
        if timers and (not out or self.timeouts_fired < self.MAX_TIMEOUTS):
            out += timers   # scheduling one of these = its timer lands before the condition holds
        return out

    @staticmethod
    def _timer_only(t) -> bool:
        return bool(t.timed and t.wait is not None and not t.wait())

    def point(self, kind: str, info=None, wait=None, wait_desc=None, timed=False):
        """Called by the running controlled thread. May block until this thread is scheduled again."""
        me = self.me()
        if me is None:
            return  # an uncontrolled thread (never during exploration proper)
        if self.aborted:
            raise Abort(self.aborted)
        if me is not self.current:
            raise Divergence(f"thread {me.name} runs without holding the baton at {kind}")
        self.n_points += 1
        if self.n_points > self.horizon:
            self._abort("horizon")
            raise Abort("horizon")
        if self.por and self.sleep:
            done = me.pending
            self.sleep = {t for t in self.sleep if not dependent(self.threads[t].pending, done)}
        me.pending = (kind, info)
        me.wait, me.wait_desc, me.timed = wait, wait_desc, bool(timed and wait is not None)
        self._dispatch(me, kind, info)
        if me.timed and wait is not None and not wait():
            self.timeouts_fired += 1
        me.wait, me.wait_desc, me.timed = None, None, False
        if self.aborted:
            raise Abort(self.aborted)

    def _dispatch(self, me: _TState, kind, info):
        enabled = self._enabled()
        if not enabled:
            if all(t.finished for t in self.threads if t is not me) and me.finished:
                return
            self._abort("deadlock")
            return
        # canonical order: running thread first if still enabled, then ascending ids
        # (threads that could only go on because their timer lands come last: a timeout is never the default answer)
        enabled.sort(key=lambda t: (1 if self._timer_only(t) else 0, 0 if t is me else 1, t.tid))
        running_enabled = enabled[0] is me
        if len(enabled) > 1:
            idx = len(self.choices)
            replaying = idx < len(self.prefix)
            if replaying:
                c = self.prefix[idx]
                if not (0 <= c < len(enabled)):
                    self._abort("stop")
                    raise Divergence(f"choice {c} out of range at point {idx} ({len(enabled)} enabled)")
            else:
                c = 0
                if self.por and self.sleep:
                    awake = [i for i, t in enumerate(enabled) if t.tid not in self.sleep]
                    if not awake:
                        self._abort("sleep-blocked")   # every enabled thread is asleep: this execution is equivalent to one already explored
                        return
                    c = awake[0]
            self.choices.append(c)
            self.points.append({"n_enabled": len(enabled), "running_enabled": running_enabled, "kind": kind, "tid": me.tid,
                                "info": info, "enabled_tids": [t.tid for t in enabled], "sleep": sorted(self.sleep) if not replaying else None})
            nxt = enabled[c]
            if self.por and self.sleep_at is not None and idx == self.sleep_at[0]:
                # the branching point: siblings explored earlier (and the inherited sleep set) go to sleep unless dependent with the chosen transition
                self.sleep = {t for t in self.sleep_at[1] if t != nxt.tid and not dependent(self.threads[t].pending, nxt.pending)}
        else:
            nxt = enabled[0]
            if self.por and self.sleep and nxt.tid in self.sleep and len(self.choices) >= len(self.prefix):
                self._abort("sleep-blocked")
                return
        if self.snapshot is not None:
            try:
                self.state_hashes.append(self.snapshot(self, kind, me.tid))
            except Exception:  # noqa: BLE001  (bookkeeping only)
                pass
        self.trace_log.append((me.tid, kind, nxt.tid))
        if nxt is me:
            return
        self.current = nxt
        nxt.sem.release()
        if not me.finished:
            self._block(me)

    def _block(self, me: _TState):
        if not me.sem.acquire(timeout=self.HANDOFF_TIMEOUT):
            self.aborted = "watchdog"
            for t in self.threads:
                t.sem.release()
            raise Abort("watchdog: a baton hand-off did not return (real blocking call inside a controlled thread?)")
        if self.aborted:
            raise Abort(self.aborted)

    def _abort(self, why):
        if self.aborted is None:
            self.aborted = why
        for t in self.threads:
            if t is not self.me():
                t.sem.release()

    # ------------------------------------------------------------------------------------
    def new_thread(self, name) -> _TState:
        t = _TState(len(self.threads), name)
        self.threads.append(t)
        return t

    def thread_body(self, ts: _TState, target, args, kwargs, tracer=None):
        self.by_ident[_real_threading.get_ident()] = ts
        ts.sem.acquire()  # wait to be scheduled for the first time
        try:
            if self.aborted:
                return
            if tracer is not None:
                sys.settrace(tracer)
            target(*args, **kwargs)
        except Abort:
            pass
        except BaseException as e:  # noqa: BLE001
            ts.exc = e
        finally:
            sys.settrace(None)
            ts.finished = True
            if not self.aborted:
                try:
                    self.n_points += 1
                    if self.por and self.sleep:
                        done = ts.pending   # the last transition of this thread wakes every sleeping thread that depends on it
                        self.sleep = {t for t in self.sleep if not dependent(self.threads[t].pending, done)}
                    ts.pending = ("exit", None)
                    self._dispatch(ts, "exit", None)
                except (Abort, Divergence):
                    pass

    def finish_main(self):
        """Called by the main thread at the end of an execution: let every other thread run to its end."""
        me = self.threads[0]
        alive = [t for t in self.threads[1:] if t.started and not t.finished]
        if alive and not self.aborted:
            # threads still alive although the driver is done: they are blocked for ever (leak) or runnable
            self.leaked = [t.name for t in alive]
        self._abort(self.aborted or "stop")
        for t in self.threads[1:]:
            if t.real is not None:
                t.real.join(self.HANDOFF_TIMEOUT)

    leaked: list = []


# ------------------------------------------------------------------------------------------------
# the virtual primitives; they find their Controller through a module-level slot set per execution
# ------------------------------------------------------------------------------------------------
_ctl: Controller | None = None
_tracer = None


def set_controller(c: Controller | None, tracer=None):
    global _ctl, _tracer
    _ctl, _tracer = c, tracer


class Empty(Exception):
    pass


class VQueue:
    """Unbounded FIFO with the subset of queue.Queue's interface that black-it uses."""

    _count = 0

    registry: list = []   # every virtual queue created since the last reset_registry() (harnesses look at leftovers through it)

    def __init__(self, maxsize=0):  # noqa: ARG002
        self.items = collections.deque()
        VQueue._count += 1
        self.qid = VQueue._count
        VQueue.registry.append(self)

    def put(self, item, block=True, timeout=None):  # noqa: ARG002
        c = _ctl
        if c is not None and c.me() is not None:
            c.point("put", self.qid)
        self.items.append(item)

    def get(self, block=True, timeout=None):  # noqa: ARG002
        c = _ctl
        if c is not None and c.me() is not None:
            if not block:
                c.point("get_nowait", self.qid)
                if not self.items:
                    import queue

                    raise queue.Empty
                return self.items.popleft()
            c.point("get" if timeout is None else "get~timed", self.qid, wait=lambda: len(self.items) > 0, wait_desc=f"get(q{self.qid})", timed=timeout is not None)
        if not self.items:
            import queue

            raise queue.Empty
        return self.items.popleft()

    def get_nowait(self):
        return self.get(block=False)

    def put_nowait(self, item):
        return self.put(item)

    def empty(self):
        c = _ctl
        if c is not None and c.me() is not None:
            c.point("empty?", self.qid)
        return not self.items

    def qsize(self):
        return len(self.items)


def reset_registry():
    VQueue.registry = []


def live_threads():
    """Names of controlled threads (other than main) that have started and not finished, in the current execution."""
    c = _ctl
    return [t.name for t in c.threads[1:] if t.started and not t.finished] if c is not None else []


class VThread:
    def __init__(self, group=None, target=None, name=None, args=(), kwargs=None, daemon=None):  # noqa: ARG002
        self.target, self.args, self.kwargs = target, args, kwargs or {}
        self.name = name or "vthread"
        self.daemon = daemon
        self.ts = None
        self.ctl = None

    def start(self):
        c = _ctl
        if c is None or c.me() is None:
            raise RuntimeError("VThread started outside a controlled execution")
        self.ctl = c
        self.ts = c.new_thread(self.name)
        real = _RealThread(target=c.thread_body, args=(self.ts, self.target, self.args, self.kwargs, _tracer), daemon=True)
        self.ts.real = real
        real.start()
        self.ts.started = True
        c.point("start", self.ts.tid)

    def join(self, timeout=None):
        c = self.ctl
        ts = self.ts
        if c is not None and c.me() is not None:
            c.point("join" if timeout is None else "join~timed", ts.tid, wait=lambda: ts.finished, wait_desc=f"join({ts.name})", timed=timeout is not None)

    def is_alive(self):
        return self.ts is not None and not self.ts.finished

    @property
    def ident(self):
        return None if self.ts is None else self.ts.real.ident


class SharedAttr:
    """Data descriptor that turns reads/writes of one instance attribute into scheduling points."""

    def __init__(self, name, default=None):
        self.name = name
        self.slot = "_vf_shared_" + name
        self.default = default

    def __get__(self, obj, owner=None):
        if obj is None:
            return self
        c = _ctl
        if c is not None and c.me() is not None and not c.aborted:
            c.point("read:" + self.name, None)
        return obj.__dict__.get(self.slot, self.default)

    def __set__(self, obj, value):
        c = _ctl
        if c is not None and c.me() is not None and not c.aborted:
            c.point("write:" + self.name, None)
        obj.__dict__[self.slot] = value


class VEvent:
    """threading.Event whose wait() is modelled as blocking (a scheduling point that disables the caller until set)."""

    def __init__(self):
        self._flag = False

    def is_set(self):
        c = _ctl
        if c is not None and c.me() is not None and not c.aborted:
            c.point("event?", None)
        return self._flag

    def set(self):
        c = _ctl
        if c is not None and c.me() is not None and not c.aborted:
            c.point("event.set", None)
        self._flag = True

    def clear(self):
        c = _ctl
        if c is not None and c.me() is not None and not c.aborted:
            c.point("event.clear", None)
        self._flag = False

    def wait(self, timeout=None):
        c = _ctl
        if c is not None and c.me() is not None:
            c.point("event.wait" if timeout is None else "event.wait~timed", None, wait=lambda: self._flag, wait_desc="event.wait", timed=timeout is not None)
        return self._flag


class VLock:
    """threading.Lock / RLock stand-in: acquire is a scheduling point that disables the caller while the lock is held by another thread."""

    def __init__(self):
        self._owner = None
        self._depth = 0

    def acquire(self, blocking=True, timeout=-1):
        c = _ctl
        me = c.me() if c is not None else None
        if me is not None:
            if not blocking:
                c.point("lock.try", None)
                if self._owner not in (None, me):
                    return False
            else:
                timed = timeout is not None and timeout >= 0
                c.point("lock.acquire" + ("~timed" if timed else ""), None, wait=lambda: self._owner in (None, me), wait_desc="lock.acquire", timed=timed)
                if self._owner not in (None, me):
                    return False
        self._owner = me if me is not None else "uncontrolled"
        self._depth += 1
        return True

    def release(self):
        c = _ctl
        if c is not None and c.me() is not None and not c.aborted:
            c.point("lock.release", None)
        self._depth -= 1
        if self._depth <= 0:
            self._owner, self._depth = None, 0

    def locked(self):
        return self._owner is not None

    def __enter__(self):
        self.acquire()
        return self

    def __exit__(self, *a):
        self.release()
        return False


class ThreadingProxy:
    """Stands in for the name `threading` inside a module: Thread, Event and Lock are virtual, the rest is real."""

    Thread = VThread
    Event = VEvent
    Lock = VLock
    RLock = VLock

    def __getattr__(self, name):
        return getattr(_real_threading, name)


class QueueProxy:
    """Stands in for the name `queue` inside a module: Queue is virtual, the rest (Empty, Full) is real."""

    Queue = VQueue
    SimpleQueue = VQueue
    LifoQueue = None

    def __getattr__(self, name):
        import queue as _q

        return getattr(_q, name)


def make_line_tracer(files_prefixes):
    """sys.settrace function that makes every line executed in the given files a scheduling point."""

    def local(frame, event, arg):  # noqa: ARG001
        if event == "line":
            c = _ctl
            if c is not None and not c.aborted:
                me = c.me()
                if me is not None:
                    c.executed.setdefault((frame.f_code.co_filename.rsplit("/", 1)[-1], frame.f_lineno), set()).add(me.tid)
                    c.point("line", (frame.f_code.co_name, frame.f_lineno))
        return local

    def tracer(frame, event, arg):  # noqa: ARG001
        if event == "call":
            fn = frame.f_code.co_filename
            for p in files_prefixes:
                if p in fn:
                    return local
        return None

    return tracer


Controller.executed = {}
