"""Finite lattices shared by C03 and C16: search spaces, sampler variants, on-grid histories. Explicit products, no RNG."""
from __future__ import annotations

import itertools

import numpy as np

SPECS = [(0.0, 1.0, 0.01), (0.0, 1.0, 0.3), (-1.0, 1.0, 0.1), (0.0, 0.95, 0.1), (-3.3, 7.1, 0.7), (1000.0, 1001.0, 0.25), (-1e-3, 1e-3, 3e-4), (0.0, 1e6, 1e5 / 3),
         (5.0, 6.0, 1.0 / 3.0), (-2.0, -1.0, 0.125), (0.0, 1.0, 0.07), (0.0, 10.0, 3.0), (0.0, 100.0, 2.5)]
SUB6 = [0, 1, 3, 4, 5, 11]
SUB4 = [1, 3, 4, 8]
SUB2 = [1, 4]


def spaces(tier="quick"):
    """List of per-parameter spec index tuples."""
    out = [(i,) for i in range(len(SPECS))]
    out += list(itertools.product(SUB6, repeat=2))
    out += list(itertools.product(SUB4, repeat=3))
    if tier != "quick":
        out += list(itertools.product(SUB2, repeat=4)) + list(itertools.product(SUB2, repeat=5)) + list(itertools.product(SUB2, repeat=6))
    return out


def make_space(idx):
    from black_it.search_space import SearchSpace

    lo = [SPECS[i][0] for i in idx]
    up = [SPECS[i][1] for i in idx]
    pr = [SPECS[i][2] for i in idx]
    return SearchSpace([lo, up], pr, verbose=False)


CHEAP = [
    ("Halton", {}), ("RSequence", {}), ("RandomUniform", {}),
    ("BestBatch", {"perturbation_range": 2}), ("BestBatch", {"perturbation_range": 3, "a": 1.0, "b": 1.0}), ("BestBatch", {"perturbation_range": 6, "a": 0.5, "b": 2.0}),
    ("ParticleSwarm", {}), ("ParticleSwarm", {"global_minimum_across_samplers": True}),
]
COSTLY = [
    ("CORS", {"max_samples": 40, "p": 0.5}), ("CORS", {"max_samples": 40, "p": 1.0}), ("CORS", {"max_samples": 40, "verbose": True}),
    ("GaussianProcess", {"candidate_pool_size": 20, "optimize_restarts": 1, "acquisition": "mean"}),
    ("GaussianProcess", {"candidate_pool_size": 20, "optimize_restarts": 1, "acquisition": "expected_improvement"}),
    ("XGBoost", {"n_estimators": 3, "candidate_pool_size": 25}), ("RandomForest", {"n_estimators": 3, "candidate_pool_size": 25}),
]


def make_sampler(name, opts, bs, seed):
    from vf.opseq.cal import sampler_class

    return sampler_class(name)(batch_size=bs, random_state=seed, **opts)


def history(space, n, loss_pattern, shift=0):
    """n on-grid rows from fixed index patterns (first / last / middle elements first, so the bounds are hit) and losses."""
    grids = space.param_grid
    rows = []
    for r in range(n):
        row = []
        for c, g in enumerate(grids):
            m = len(g)
            if r == 0:
                i = 0
            elif r == 1:
                i = m - 1
            elif r == 2:
                i = m // 2
            else:
                i = (r * (c + 2) + c + shift) % m
            row.append(g[i])
        rows.append(row)
    pts = np.array(rows, dtype=float).reshape(n, len(grids))
    k = np.arange(n, dtype=float)
    if loss_pattern == "distinct":
        losses = 1.0 + ((k * 7) % n) * 0.37
    elif loss_pattern == "ties":
        losses = 1.0 + (k % 2) * 0.5
    elif loss_pattern == "equal":
        losses = np.full(n, 2.5)
    elif loss_pattern == "huge":
        losses = 1.0 + ((k * 7) % n) * 0.37
        losses[n // 2] = 1e30
    elif loss_pattern == "f32overflow":
        losses = 1.0 + ((k * 7) % n) * 0.37
        losses[n // 2] = 1e39
        if n > 2:
            losses[1] = -1e39
    elif loss_pattern == "inf":
        losses = 1.0 + ((k * 7) % n) * 0.37
        losses[n // 2] = np.inf
    elif loss_pattern in ("f32under", "f32over", "neginf"):   # ONE side of the float32 range only (wave 6: a clip that copies in one branch only)
        losses = 1.0 + ((k * 7) % n) * 0.37
        losses[n // 2] = {"f32under": -1e39, "f32over": 1e39, "neginf": -np.inf}[loss_pattern]
    else:
        raise ValueError(loss_pattern)
    return pts, losses.astype(float)


def is_regular(pts, losses):
    return len(np.unique(pts, axis=0)) == len(pts) and len(np.unique(losses)) > 1
