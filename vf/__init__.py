"""Model-checking machinery for black-it (see /verif/DESIGN.md)."""
