"""E2 - building blocks for operation-history exploration of the real Calibrator.

build(cfg)           fresh samplers / scheduler / loss / Calibrator from a JSON-able configuration
Recorder             class-level patches that log sampler.sample(), loss.compute_loss(), scheduler.get_next_sampler()
state(cal)           canonical state of a calibrator (history + hidden state)
"""
from __future__ import annotations

import contextlib
import shutil
import tempfile
from pathlib import Path

import numpy as np

from vf import models
from vf.canon import canon
from vf.core import quiet

SAMPLER_DEFAULTS = {
    "Halton": {},
    "RSequence": {},
    "RandomUniform": {},
    "BestBatch": {},
    "ParticleSwarm": {},
    "CORS": {"max_samples": 60},
    "XGBoost": {"n_estimators": 3, "candidate_pool_size": 20},
    "RandomForest": {"n_estimators": 3, "candidate_pool_size": 20},
    "GaussianProcess": {"candidate_pool_size": 20, "optimize_restarts": 1},
}
HISTORY_FREE = ["Halton", "RSequence", "RandomUniform", "ParticleSwarm"]
ALL_SAMPLERS = list(SAMPLER_DEFAULTS)
SAMPLER_DEFAULTS.update({"HaltonB": {}, "RSequenceB": {}, "RandomUniformB": {}, "Ballast": {}, "Walkers": {}})


def sampler_class(name):
    import black_it.samplers.best_batch as bb
    import black_it.samplers.cors as cors
    import black_it.samplers.gaussian_process as gp
    import black_it.samplers.halton as h
    import black_it.samplers.particle_swarm as ps
    import black_it.samplers.r_sequence as rs
    import black_it.samplers.random_forest as rf
    import black_it.samplers.random_uniform as ru
    import black_it.samplers.xgboost as xg

    from vf import samplers_extra as sx

    extra = {"HaltonB": sx.HaltonB, "RSequenceB": sx.RSequenceB, "RandomUniformB": sx.RandomUniformB, "Ballast": sx.Ballast, "Walkers": sx.Walkers}
    if name in extra:
        return extra[name]
    return {"Halton": h.HaltonSampler, "RSequence": rs.RSequenceSampler, "RandomUniform": ru.RandomUniformSampler,
            "BestBatch": bb.BestBatchSampler, "ParticleSwarm": ps.ParticleSwarmSampler, "CORS": cors.CORSSampler,
            "XGBoost": xg.XGBoostSampler, "RandomForest": rf.RandomForestSampler, "GaussianProcess": gp.GaussianProcessSampler}[name]


def make_sampler(spec):
    """spec: {"cls": name, "bs": int, "seed": int|None, "opts": {...}}"""
    opts = dict(SAMPLER_DEFAULTS[spec["cls"]])
    opts.update(spec.get("opts", {}))
    return sampler_class(spec["cls"])(batch_size=spec["bs"], random_state=spec.get("seed"), **opts)


def make_loss(spec):
    from black_it.loss_functions.fourier import FourierLoss
    from black_it.loss_functions.gsl_div import GslDivLoss
    from black_it.loss_functions.likelihood import LikelihoodLoss
    from black_it.loss_functions.minkowski import MinkowskiLoss
    from black_it.loss_functions.msm import MethodOfMomentsLoss

    kind = spec if isinstance(spec, str) else spec["kind"]
    if kind == "minkowski":
        return MinkowskiLoss(p=2)
    if kind == "minkowski1":
        return MinkowskiLoss(p=1)
    if kind == "msm":
        return MethodOfMomentsLoss()
    if kind == "fourier":
        return FourierLoss(f=0.5)
    if kind == "gsl":
        return GslDivLoss(nb_values=3, nb_word_lengths=2)
    if kind == "likelihood":
        return LikelihoodLoss()
    if kind == "neg_minkowski":   # a user-defined loss that is a score to maximise, negated: losses far below zero are legal
        return _negated_minkowski()(p=2)
    if kind == "minkowski_filtered":
        from black_it.utils.time_series import diff_log_demean_filter  # noqa: F401

        return MinkowskiLoss(p=2, coordinate_weights=np.array([0.3, 0.7]), coordinate_filters=[_halve, None])
    raise ValueError(kind)


_NEG = []


def _negated_minkowski():
    if not _NEG:
        from black_it.loss_functions.minkowski import MinkowskiLoss

        class NegatedMinkowski(MinkowskiLoss):
            def compute_loss_1d(self, sim_data_ensemble, real_data):
                return -super().compute_loss_1d(sim_data_ensemble, real_data)

        _NEG.append(NegatedMinkowski)
    return _NEG[0]


def _halve(x):
    return x / 2.0


def real_data(cfg):
    T, D = cfg.get("T", 8), cfg.get("D", 2)
    if cfg.get("real_const") is not None:
        return np.full((T, D), float(cfg["real_const"]))
    rng = np.random.default_rng(4242)
    return 0.5 + 0.1 * rng.standard_normal((T, D))


def space(cfg):
    d = cfg.get("dims", 2)
    lo = cfg.get("lower", 0.0)
    up = cfg.get("upper", 1.0)
    pr = cfg.get("precision", 0.05)
    return [[lo] * d, [up] * d], [pr] * d


def make_scheduler(cfg, samplers):
    sch = cfg.get("scheduler", "rr")
    if sch == "rr":
        return None
    if sch == "rr_inplace":
        return InPlaceRoundRobin()(samplers)
    from black_it.schedulers.rl.agents.epsilon_greedy import MABEpsilonGreedy
    from black_it.schedulers.rl.envs.mab import MABCalibrationEnv
    from black_it.schedulers.rl.rl_scheduler import RLScheduler

    has_halton = any(type(s).__name__ == "HaltonSampler" for s in samplers)
    n = len(samplers) + (0 if has_halton else 1)
    agent = MABEpsilonGreedy(n_actions=n, alpha=sch.get("alpha", -1), eps=sch.get("eps", 0.3), initial_values=0.0, random_state=sch.get("agent_seed"))
    env = MABCalibrationEnv(n)
    return RLScheduler(samplers, agent=agent, env=env, random_state=sch.get("sched_seed"))


def InPlaceRoundRobin():
    """A user-defined scheduler (round-robin) whose update() hook post-processes what it is given IN PLACE (rewards = -losses,
    shifted): legal for a user - the arguments are his to use - as long as the calibrator hands over copies or throw-aways."""
    from black_it.schedulers.round_robin import RoundRobinScheduler

    class _InPlaceRoundRobin(RoundRobinScheduler):
        def update(self, batch_id, new_params, new_losses, new_simulated_data):
            for arr in (new_losses, new_params, new_simulated_data):
                a = np.asarray(arr)
                if a.dtype.kind == "f" and a.flags.writeable and a.size:
                    a *= -1.0
                    a -= a.max()
            return super().update(batch_id, new_params, new_losses, new_simulated_data)

    return _InPlaceRoundRobin


class SubclassedCalibrator:
    """Factory of a user subclass of Calibrator that changes how a batch is simulated (common random numbers within a batch)."""

    _cls = None

    @classmethod
    def get(cls):
        if cls._cls is None:
            from black_it.calibrator import Calibrator

            class CRNCalibrator(Calibrator):
                def simulate_model(self, params):
                    out = super().simulate_model(params)
                    return out + 0.125          # a visible, deterministic difference from the base class
            cls._cls = CRNCalibrator
        return cls._cls


def build(cfg, samplers=None):
    """cfg keys: lineup [sampler specs], scheduler 'rr'|{rl...}, loss, model, dims, D, T, ensemble, seed, n_jobs,
    verbose, saving_folder, sim_length, convergence_precision."""
    from black_it.calibrator import Calibrator

    if cfg.get("subclass"):
        Calibrator = SubclassedCalibrator.get()  # noqa: N806
    if samplers is None:
        samplers = [make_sampler(s) for s in cfg["lineup"]]
    sched = make_scheduler(cfg, samplers)
    bounds, prec = space(cfg)
    with quiet():
        cal = Calibrator(
            loss_function=make_loss(cfg.get("loss", "minkowski")),
            real_data=real_data(cfg),
            model=models.MODELS[cfg.get("model", "gauss2")],
            parameters_bounds=bounds,
            parameters_precision=prec,
            ensemble_size=cfg.get("ensemble", 1),
            samplers=samplers if sched is None else None,
            scheduler=sched,
            sim_length=cfg.get("sim_length"),
            convergence_precision=cfg.get("convergence_precision"),
            verbose=cfg.get("verbose", False),
            saving_folder=cfg.get("saving_folder"),
            random_state=cfg.get("seed", 0),
            n_jobs=cfg.get("n_jobs", 1),
        )
    return cal


def restore(folder, cfg):
    from black_it.calibrator import Calibrator

    if cfg.get("subclass"):
        Calibrator = SubclassedCalibrator.get()  # noqa: N806

    with quiet():
        return Calibrator.restore_from_checkpoint(str(folder), models.MODELS[cfg.get("model", "gauss2")])


@contextlib.contextmanager
def scratch():
    d = tempfile.mkdtemp(prefix="vf_")   # below the run's private temp directory (vf/cli.py sets TMPDIR)
    try:
        yield Path(d)
    finally:
        shutil.rmtree(d, ignore_errors=True)


# ---------------------------------------------------------------------------------------------
HIST = ("params_samp", "losses_samp", "series_samp", "batch_num_samp", "method_samp")


def history(cal):
    return {k: np.array(getattr(cal, k)) for k in HIST}


def history_canon(cal):
    return canon({k: getattr(cal, k) for k in HIST} | {"n": cal.n_sampled_params, "b": cal.current_batch_index})


def state(cal, with_folder=False):
    """Canonical calibrator state: history + counters + hidden state."""
    d = {
        "hist": {k: getattr(cal, k) for k in HIST},
        "n_sampled_params": cal.n_sampled_params,
        "current_batch_index": cal.current_batch_index,
        "rng": cal.random_generator,
        "random_state": cal.random_state,
        "scheduler": cal.scheduler,
        "loss": cal.loss_function,
        "ids": dict(cal.samplers_id_table),
        "cfg": {"N": cal.N, "D": cal.D, "ensemble": cal.ensemble_size, "conv": cal.convergence_precision, "verbose": cal.verbose,
                "n_jobs": cal.n_jobs, "bounds": np.asarray(cal.param_grid.parameters_bounds, dtype=float),
                "prec": np.asarray(cal.param_grid.parameters_precision, dtype=float), "real": np.asarray(cal.real_data), "model": cal.model.__name__},
    }
    if with_folder:
        d["saving_folder"] = cal.saving_folder
    return canon(d)


# ---------------------------------------------------------------------------------------------
class Recorder:
    """Class-level logging patches, installed for the duration of a `with` block."""

    def __init__(self, snapshot_of=None, fault=None):
        self.sample_calls = []     # (sampler object id, class name, batch_size, returned array copy)
        self.loss_calls = []       # (sim copy, real copy, value)
        self.sched_calls = []      # sampler object id returned by get_next_sampler
        self.snapshots = []        # history snapshots around sampler calls (append-only check)
        self.snapshot_of = snapshot_of
        self.fault = fault or {}   # {"sampler": k} / {"loss": k}: raise at the k-th invocation
        self.n_sample_batch = 0
        self._undo = []

    def __enter__(self):
        from black_it.loss_functions.base import BaseLoss
        from black_it.loss_functions.likelihood import LikelihoodLoss
        from black_it.samplers.base import BaseSampler
        from black_it.schedulers.rl.rl_scheduler import RLScheduler
        from black_it.schedulers.round_robin import RoundRobinScheduler

        rec = self

        orig_sample = BaseSampler.sample

        def sample(self_, search_space, existing_points, existing_losses):
            before = (existing_points.tobytes(), existing_losses.tobytes())
            out = orig_sample(self_, search_space, existing_points, existing_losses)
            after = (existing_points.tobytes(), existing_losses.tobytes())
            rec.sample_calls.append({"obj": id(self_), "cls": type(self_).__name__, "bs": self_.batch_size, "out": np.array(out).copy(),
                                     "args_intact": before == after, "n_existing": len(existing_points)})
            return out

        BaseSampler.sample = sample
        self._undo.append((BaseSampler, "sample", orig_sample))

        if "sampler" in self.fault:
            for name in ALL_SAMPLERS:
                cls = sampler_class(name)
                orig = cls.__dict__.get("sample_batch")
                if orig is None:
                    continue

                def make(orig):
                    def sample_batch(self_, *a, **k):
                        i = rec.n_sample_batch
                        rec.n_sample_batch += 1
                        if i == rec.fault.get("sampler"):
                            raise FLAVOURS[rec.fault.get("exc")](f"sampler call {i}")
                        return orig(self_, *a, **k)
                    return sample_batch

                setattr(cls, "sample_batch", make(orig))
                self._undo.append((cls, "sample_batch", orig))

        for cls in (BaseLoss, LikelihoodLoss):
            if "compute_loss" not in cls.__dict__:
                continue
            orig = cls.__dict__["compute_loss"]

            def make(orig):
                def compute_loss(self_, sim, real):
                    i = len(rec.loss_calls)
                    if rec.fault.get("loss") == i:
                        rec.loss_calls.append(None)
                        raise FLAVOURS[rec.fault.get("exc")](f"loss call {i}")
                    sim_before = np.array(sim).copy()
                    val = orig(self_, sim, real)
                    rec.loss_calls.append({"sim": sim_before, "sim_after_equal": np.array_equal(sim_before, sim, equal_nan=True), "val": val})
                    return val
                return compute_loss

            setattr(cls, "compute_loss", make(orig))
            self._undo.append((cls, "compute_loss", orig))

        for cls in (RoundRobinScheduler, RLScheduler):
            orig = cls.get_next_sampler  # wherever in the MRO it is defined; the wrapper is installed on the concrete class
            had_own = "get_next_sampler" in cls.__dict__

            def make(orig):
                def get_next_sampler(self_):
                    s = orig(self_)
                    rec.sched_calls.append({"obj": id(s), "cls": type(s).__name__, "bs": s.batch_size,
                                            "index": next((i for i, x in enumerate(self_.samplers) if x is s), -1), "n_samplers": len(self_.samplers)})
                    return s
                return get_next_sampler

            setattr(cls, "get_next_sampler", make(orig))
            self._undo.append((cls, "get_next_sampler", orig if had_own else None))
        return self

    def __exit__(self, *a):
        for cls, name, orig in reversed(self._undo):
            if orig is None:
                delattr(cls, name)
            else:
                setattr(cls, name, orig)
        self._undo = []


class InjectedFault(Exception):
    pass


class InjectedStop(StopIteration):
    """A StopIteration escaping from user code (`next(x for x in ... if cond)` finding nothing): swallowed by any enclosing
    list(map(...)) / generator / zip, so it tells whether the caller iterates lazily around the user's code."""


class InjectedExit(SystemExit):
    """sys.exit() called inside user code: a BaseException that is neither an Exception nor a KeyboardInterrupt."""


class InjectedValueError(ValueError):
    """A user-defined subclass of a built-in exception the library itself catches or raises somewhere (invalid parameters)."""


class InjectedLookupError(KeyError):
    pass


class InjectedOSError(OSError):
    pass


FLAVOURS = {None: InjectedFault, "error": InjectedFault, "stop": InjectedStop, "exit": InjectedExit, "value": InjectedValueError, "lookup": InjectedLookupError, "os": InjectedOSError}
