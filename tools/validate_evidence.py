import json, sys, glob, jsonschema
schema = json.load(open('/root/.vp/EVIDENCE.schema.json'))
bad = 0
for f in sorted(glob.glob('/verif/evidence/*.json')):
    try:
        d = json.load(open(f)); jsonschema.validate(d, schema)
        c = d['coverage']
        print(f"{d['property_id']} {d['tier']:8s} ok  eval={c['evaluations']:>8} nontriv={c['distinct_nontrivial']:>8} states={c['states']:>8} trans={c['transitions']:>9} traces={c['traces_validated_against_impl']:>7} exh={c['exhaustive']} wall={d['wall_s']}")
    except Exception as e:
        bad += 1; print(f, "INVALID", str(e)[:200])
sys.exit(1 if bad else 0)
