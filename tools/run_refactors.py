"""Run every behaviour-preserving refactoring (refactors/*/patch.diff) against the quick check of every property whose anchor
files it touches; every pair must be SILENT (exit 0). Writes REFACTORS.md.
usage: /venv/bin/python tools/run_refactors.py [--only substr]"""
import glob, json, os, re, subprocess, sys, time
HOME = os.path.dirname(os.path.dirname(os.path.abspath(__file__)))
props = [json.loads(l) for l in open(f"{HOME}/properties.jsonl")]
anch = {p["id"]: set(p["anchors"]["files"]) for p in props}
only = sys.argv[sys.argv.index("--only") + 1] if "--only" in sys.argv else ""
DIR = sys.argv[sys.argv.index("--dir") + 1] if "--dir" in sys.argv else "refactors"   # "variants": behaviour-CHANGING but property-preserving patches
OUT = {"refactors": "REFACTORS.md", "variants": "VARIANTS.md"}[DIR]
rows = []
for p in sorted(glob.glob(f"{HOME}/{DIR}/*/patch.diff")):
    name = os.path.basename(os.path.dirname(p))
    if only and only not in name:
        continue
    files = set(re.findall(r"^\+\+\+ b/(\S+)", open(p).read(), flags=re.M))
    own = "C" + name[1:3]
    checks = sorted({c for c, fs in anch.items() if fs & files} | {own})
    for chk in checks:
        t0 = time.time()
        r = subprocess.run([f"{HOME}/tools/mutant.sh", p, chk, "quick"], capture_output=True, text=True)
        keys = re.findall(r"^\s+key=(\S+)", r.stdout, flags=re.M)
        herr = re.findall(r"^HARNESS-ERROR.*", r.stdout + r.stderr, flags=re.M)
        rows.append((name, chk, r.returncode, (", ".join(sorted(set(keys))[:3]) or (herr[0][:120] if herr else ""))[:160], round(time.time() - t0)))
        print(rows[-1], flush=True)
bad = [r for r in rows if r[2] != 0]
with open(f"{HOME}/{OUT}", "w") as f:
    f.write(("# Silence on behaviour-preserving refactorings\n\nProduced by `tools/run_refactors.py` (quick tier). Each refactoring" if DIR == "refactors" else
             "# Silence on property-preserving behaviour changes\n\nProduced by `tools/run_refactors.py --dir variants` (quick tier). Each variant (a change of behaviour the property leaves open)") +
            " is run against the check of its own property and of every property "
            "whose anchor files it touches. Exit 0 = silent (expected); 1 = false alarm; 2 = harness error.\n\n| patch | check | exit | note | s |\n|---|---|---|---|---|\n")
    for r in rows:
        f.write("| %s | %s | %s | %s | %s |\n" % r)
    f.write("\n%d pairs, %d not silent: %s\n" % (len(rows), len(bad), [(r[0], r[1], r[2]) for r in bad]))
print("not silent:", [(r[0], r[1], r[2]) for r in bad])
