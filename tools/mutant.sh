#!/bin/bash
# usage: tools/mutant.sh <patch.diff> <ID> [tier] [extra env...]
# Applies a patch to a scratch copy of /repo (outside /repo and /verif), runs one check against it
# through VERIF_REPO, removes the copy. Exit status = status of the check (1 expected for a mutant).
set -u
PATCH="$(realpath "$1")"; ID="$2"; TIER="${3:-quick}"
SCR="$(mktemp -d /tmp/vmut.XXXXXX)"
trap 'rm -rf "$SCR"' EXIT
mkdir -p "$SCR/repo"
(cd /repo && git ls-files -z black_it | xargs -0 cp --parents -t "$SCR/repo") || exit 2
(cd "$SCR/repo" && git init -q . && git apply --whitespace=nowarn "$PATCH") || { echo "patch does not apply"; exit 2; }
VERIF_REPO="$SCR/repo" "$(dirname "$0")/../run" "$ID" "$TIER"
