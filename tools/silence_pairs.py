"""Re-run the silence pairs (refactors/ and variants/) of the given checks only, after a check was strengthened.
usage: /venv/bin/python tools/silence_pairs.py C11 C16 ...   -> one line per (patch, check); exit 1 if any pair is not silent."""
import glob, json, os, re, subprocess, sys
from concurrent.futures import ThreadPoolExecutor
HOME = os.path.dirname(os.path.dirname(os.path.abspath(__file__)))
anch = {p["id"]: set(p["anchors"]["files"]) for p in map(json.loads, open(f"{HOME}/properties.jsonl"))}
pairs = []
for d in ("refactors", "variants"):
    for p in sorted(glob.glob(f"{HOME}/{d}/*/patch.diff")):
        name = os.path.basename(os.path.dirname(p))
        files = set(re.findall(r"^\+\+\+ b/(\S+)", open(p).read(), flags=re.M))
        for chk in sys.argv[1:]:
            if anch[chk] & files or "C" + name[1:3] == chk:
                pairs.append((d, name, p, chk))


def one(a):
    d, name, p, chk = a
    env = dict(os.environ, TMPDIR=os.environ.get("TMPDIR", "/tmp"))
    r = subprocess.run([f"{HOME}/tools/mutant.sh", p, chk, "quick"], capture_output=True, text=True, env=env)
    keys = re.findall(r"^\s+key=(\S+)", r.stdout, flags=re.M)
    return f"{d}/{name} {chk} exit={r.returncode} {', '.join(sorted(set(keys))[:3])}"


bad = 0
with ThreadPoolExecutor(3) as ex:
    for line in ex.map(one, pairs):
        print(line, flush=True)
        bad += " exit=0" not in line
print(f"{len(pairs)} pairs, {bad} not silent")
sys.exit(1 if bad else 0)
