"""Fold our own confirmation (tools/seedcheck.sh) into seeded/<id>/meta.json and print the detection table."""
import glob, json, os, re
rows = []
for d in sorted(glob.glob('/verif/seeded/C*-*')):
    name = os.path.basename(d)
    prop = name.split('-')[0]
    meta = {}
    try:
        meta = json.load(open(f'{d}/meta.json'))
    except Exception:
        pass
    conf = open(f'{d}/confirm.txt').read().strip() if os.path.exists(f'{d}/confirm.txt') else ''
    m = re.search(r'demo_without=(\d+) demo_with=(\d+) stable_tests_missing=(\d+) checks:(.*)', conf)
    keys = []
    for lf in glob.glob(f'{d}/check_*.log'):
        for line in open(lf):
            mm = re.match(r'\s+key=(\S+)', line)
            if mm:
                keys.append(mm.group(1))
    meta['breaks_property'] = prop
    meta['confirmed_by_us'] = {
        'ran': 'tools/seedcheck.sh %s %s  (demo on /repo; patch applied to a scratch git worktree of /repo; demo, baseline pytest command and our quick check against that worktree; worktree removed)' % tuple(name.split('-')),
        'demo_exit_without_patch': int(m.group(1)) if m else None,
        'demo_exit_with_patch': int(m.group(2)) if m else None,
        'stable_tests_failing_with_patch': int(m.group(3)) if m else None,
        'our_checks_exit': m.group(4).strip() if m else None,
        'violation_keys_reported': sorted(set(keys))[:8],
    }
    json.dump(meta, open(f'{d}/meta.json', 'w'), indent=1)
    rows.append((name, meta.get('summary', '')[:90].replace('\n', ' '), m.group(4).strip() if m else '?', ', '.join(sorted(set(keys))[:2])[:90]))
for r in rows:
    print('| %s | %s | %s | %s |' % r)
