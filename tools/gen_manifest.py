"""Regenerate /verif/MANIFEST.json from the check modules that exist. usage: /venv/bin/python tools/gen_manifest.py"""
import json
import os
import sys
from pathlib import Path

HOME = Path(__file__).resolve().parent.parent
sys.path.insert(0, str(HOME))

META = {
    "C01": dict(engine="E2-opseq", tech="explicit-state differential exploration of twin runs: every single deviation (fresh twin, n_jobs 2/4 with real loky, verbose, saving folder, sampler-constructor seeds) on a complete lattice of line-ups x schedulers x losses x dims x ensemble, bit-exact state comparison; plus an other-process deviation (another hash salt) and two large-scope configurations (600-row surrogate history, likelihood loss on series of 4100 points)",
                text="Bounded-exhaustive differential model checking on the real Calibrator: for every configuration of a finite lattice the baseline run and every single deviation from it are executed and their canonical histories compared bit for bit. Level is right because the property is a statement over configurations, and the realistic slips (seed drawn in a worker, cursor not reset on reseed, shared streams) have witnesses of <=3 samplers and <=2x line-up length batches.",
                note="Trusted: numpy Generator determinism, joblib/loky returning results in submission order; completion order of worker processes is not enumerated. Line-ups longer than the bound and dims > 4 are not covered."),
    "C02": dict(engine="E2-opseq", tech="explicit-state search over calibrate(n) call sequences on the real Calibrator with logged sampler/model/loss calls; eight history invariants evaluated after every transition (models with extreme/non-finite output, built-in losses and a user-defined negated score whose values lie below the float32 range)",
                text="Breadth-first exploration of all sequences of calibrate(1|2) up to a depth bound for a lattice of line-ups x models (incl. huge/inf values) x ensemble x sim_length; after each transition the recorded history is checked against the logs of what samplers proposed, what the model was called with and returned, and what the loss returned, plus append-only snapshots.",
                note="Trusted: class-level logging patches (BaseSampler.sample, BaseLoss.compute_loss, scheduler methods) are transparent; n_jobs=1 so call order is owned."),
    "C03": dict(engine="E4-enum", tech="bounded-exhaustive enumeration: search-space lattice x all nine samplers x option settings x history patterns x seeds, three successive sample() calls each; exact grid membership oracle; continued on a second space of the same dimension (one sampler object), integer-typed on-grid histories",
                text="Every sampler is driven through short call sequences on every space of a lattice chosen so that clipping to a bound differs from snapping to the grid; each returned coordinate must be an exact grid element and the batch must have the declared shape.",
                note="Spaces, options and histories outside the lattice are not covered; degenerate histories (repeated rows, equal losses) are recorded, exceptions there are not judged."),
    "C04": dict(engine="E2-opseq", tech="explicit-state BFS over {calibrate, create_checkpoint, restore, new run in same folder} on the real Calibrator with canonical-state comparison; exhaustive float lattice through save->load; SQLite back-end on every distinct state; straight-line re-execution of every history in one folder without state de-duplication, a 70-row run, I/O faults injected into the checkpoint written inside calibrate()",
                text="All operation histories up to a depth bound; after every checkpoint the restored object must canonicalise to the live one (configuration, counters, arrays incl. dtype, generator state, scheduler/sampler/loss state) and remain usable; a ~12k-element float lattice is pushed through the CSV path and compared bitwise.",
                note="Trusted: the canonicaliser's dropped fields (fitted-model caches, thread handles, absolute paths) do not influence futures. Known findings keyed per cause."),
    "C05": dict(engine="E2-opseq", tech="explicit-state differential search: all 3^(n-1) cut patterns (same call / second call / checkpoint-restore) of n batches, canonical state after every batch compared with the uninterrupted twin; retry workflow (restore, run a batch on a throw-away object, restore again); single cuts of 12-batch runs",
                text="For every configuration of the line-up lattice and every way of cutting n batches, the state after batch k (history and hidden state) must equal the uninterrupted run's; the explored graph must collapse to one state per depth.",
                note="n bounded (4 quick, 5-6 thorough); line-ups of length <=2 (3 thorough)."),
    "C06": dict(engine="E3-crash", tech="crash-state enumeration: every prefix and byte cut of the logged write history of a real save on top of five kinds of previous checkpoint, restore judged old|new|error; exception injected at every traced line of both back-ends' save; previous checkpoints of a few kB, > 2 MB and > 16 MiB; another set-up with the same model name/seed/folder saved on top",
                text="Exhaustive fault enumeration over the file-operation log of the real save_calibrator_state, and over every statement of the SQLite save; each crash state is restored with the real restore path and classified.",
                note="Crash model is process death (completed writes persist in order); power-loss reordering and SQLite page atomicity are trusted/not modelled. JSON back-end non-atomicity is a recorded known finding keyed by (file, phase, outcome)."),
    "C07": dict(engine="E4-enum", tech="bounded-exhaustive enumeration of data over tiny value alphabets x all option vectors, compared with independent reference implementations written from the published definitions; likelihood loss on both sides of the 2^24 kernel-entry threshold",
                text="All real/simulated series over small alphabets (ties, constants, bin-edge hits are the norm), E<=3, D<=2, every option combination of the five built-in losses, against references using tuple words / explicit sums / explicit masks.",
                note="Reference models are trusted (written from docs, cross-checked); tolerance 1e-9 relative (1e-12 GSL). GSL-div base-10 word packing is a known finding identified by a defect-aware classification."),
    "C08": dict(engine="E4-enum", tech="bounded-exhaustive relational checking incl. all evaluation sequences of length <=3 on one loss object (explicit-state over evaluation histories); integer-typed weights, aliasing moment calculators, real-data buffer refilled in place",
                text="Purity, history-independence, weight-linearity, zero-weight, coordinate and ensemble permutation invariance, non-negativity/zero-at-identity and wrong-length rejection are checked on every element of a finite lattice of data, weights, filters and loss classes (built-ins and stub user losses).",
                note="LikelihoodLoss overrides compute_loss; the weight-linearity clause is not applied to it (documented: weights ignored)."),
    "C09": dict(engine="E2-opseq+E1", tech="explicit-state search over {calibrate(1), calibrate(2), restore} histories for round-robin line-ups of 1-6 samplers with logged sample() calls; every scripted agent action sequence for RL under all interleavings (sleep-set reduced); constructor argument combinations; set_samplers with a longer/shorter line-up inside the histories; timed waits explored as timer-lands-first deviations",
                text="Lifetime batch i must be produced by sampler i mod n with that sampler's batch size over every explored history; under RL the first batch is Halton and every later batch is the agent's chosen index.",
                note="RL + restore is not reachable (RLScheduler is not picklable: known finding of C04)."),
    "C10": dict(engine="E1-sched", tech="stateless model checking of the real RLScheduler/env/agent on real threads serialised by a baton: ALL interleavings at queue/thread/shared-attribute points modulo commutation of independent steps (sleep-set partial-order reduction, cross-checked against the unreduced search), unreduced preemption-bounded search, and line-granularity exploration with a preemption bound; sequential reference monitor on every execution; second driver = real Calibrator.calibrate; waits with a timeout explored as a bounded timer-lands-first deviation; error and keyboard-interrupt faults inside multi-session shapes",
                text="Every schedule of the calibration thread and the agent thread within the stated bounds is executed on the implementation and checked by a reference monitor (learn exactly once per executed batch with the right reward and action, nothing left in queues, no deadlock, same sampler sequence in every schedule). Tier A has no preemption bound: sleep sets cut only executions equivalent to an explored one.",
                note="The reduction assumes that between two scheduling points a thread touches only thread-local state or state behind a point; Tier B (every source line of black_it/schedulers a scheduling point, preemption bound 1/2) does not assume it. Within one source line bytecode interleavings are not explored; shapes up to 3 sessions x 3 batches."),
    "C11": dict(engine="E2-opseq+E1", tech="fault enumeration: a distinguishable exception injected at every invocation index of model, loss and each sampler for both scheduler kinds, with and without saving folder; RL fault positions under the controlled-thread explorer (all interleavings modulo independence), each followed by two further batches on the same object; convergence break under RL; scripted losses x convergence precision x a loss failing at every invocation of the first two batches",
                text="For every fault position the real calibrate() must raise that exception, leave the history equal to the fault-free prefix, leave no thread behind, and accept a further calibrate().",
                note="n_jobs=1 (fault position must be owned)."),
    "C12": dict(engine="E4-enum", tech="exhaustive enumeration of all draw scripts over a 4-row universe for every (history, batch size, pass budget) cell, against a reference model of the dedup loop; one sampler object per cell (state carried between calls shows), a universe with zeros of opposite sign",
                text="All scripts of maximal length over {two history rows, two fresh rows} are fed to the real BaseSampler.sample through a scripted subclass; requested sizes, untouched positions, result multiset and the give-up-only-after-all-passes clause are compared with the reference.",
                note="Universe of 4 rows (1 and 2 columns); pass budget 0-2 quick, 0-6 thorough."),
    "C13": dict(engine="E4-enum", tech="exhaustive index-range enumeration of halton() against exact Fraction radical inverses, all compositions of n<=6 into batch sizes on one sampler object, seeds range; all ordered pairs of 11 dimensions drawn on one sampler object",
                text="Every index in [0, 2^16+2^12) for the first 10 (40 thorough) primes, prime generator against a sieve incl. call sequences, sampler-level continuity for every composition of n into batches, R-sequence against high-precision phi_d.",
                note="Seeds from a range, not all seeds."),
    "C14": dict(engine="E2-opseq", tech="exhaustive enumeration of loss scripts (through the model) x precisions x verbosity x saving folder x requested batches, followed by a second calibrate; reference stopping rule; histories disturbed by a failing scheduler update() hook and by NaN losses, judged on the recorded losses",
                text="All scripts of length <=3 (4 thorough) over a 7-value loss alphabet; the real calibrate must stop exactly at the reference batch, for both verbosities, and the checkpoint must hold the returned state.",
                note="Loss alphabet excludes exact rounding half-way values."),
    "C15": dict(engine="E4-enum", tech="exhaustive enumeration of list/array shaped specifications over a value lattice for up to 3 parameters plus a scale lattice, against a reference of the documented validation order and grid rule; the caller's own arrays reused for four constructions",
                text="Exception class, payload and precedence for every malformed spec; grid length, elements, end-point and space_size for every well-formed one.",
                note="range/precision capped at 1e5; negative precision and zero-parameter specs recorded, not judged."),
    "C16": dict(engine="E4-enum", tech="bounded-exhaustive: byte snapshots of history arrays around every sampler call over a loss lattice (ties, huge, +inf, -inf, beyond float32 on both sides and on each side alone); every prediction vector in {0,1,2}^pool for a stub surrogate; best-batch parent/displacement oracle over option and history lattice; candidate pools of 1000-20000 (100000) with the best candidate at head/tail/chunk boundaries, histories of 999-2500 (20000) rows",
                text="No sampler may modify the lent arrays (incl. float32-overflowing losses); a surrogate must fit on exactly the history and return the batch_size best-predicted pool rows; best-batch proposals must descend from one of the batch_size best rows by 1..range-1 steps.",
                note="Histories and spaces from the C03 lattice."),
    "C17": dict(engine="E4-enum", tech="bounded-exhaustive input enumeration: all subsets of a base grid x scales x offsets, values placed relative to the grid (elements, mid/quarter points, nextafter neighbours, out of range); nearest-element oracle",
                text="Every value of a lattice placed relative to every grid of a finite family is snapped by the real get_closest/digitize_data; the result must be a grid element at minimal distance, idempotent, element-wise.",
                note="float64 arithmetic; grids strictly increasing."),
    "C18": dict(engine="E2-opseq", tech="explicit-state search over {calibrate, set_samplers, set_scheduler, restore} histories with logged sample() calls; id-table invariants and plot helper read-back after every checkpoint; plot_sampling legends read back for runs of 12 and 6000 rows",
                text="Ids never change once assigned, every stored label identifies the producing class, and the plotting helper recovers the names from every checkpoint the calibrator wrote.",
                note="The id table is not persisted: histories whose first-seen order differs from the current line-up are a known finding."),
    "C19": dict(engine="E4-enum", tech="explicit-state BFS over learn/policy event sequences of the real agent and over best-loss sequences of the real bandit environment against reference update rules; learning rate 0, losses around 1e-13, negative losses",
                text="All event sequences to depth 4 (6 thorough) for a lattice of action counts, learning rates, epsilons, initial values and seeds; Q/counts equal the reference after every event; rewards equal the relative-improvement rule.",
                note="Reward with previous best = 0 is undefined by definition and excluded."),
    "C20": dict(engine="E4-enum", tech="bounded-exhaustive enumeration of lengths x lambdas x shapes against an independently built dense/banded HP system and the filter definitions; float32 and int64 input series",
                text="Every length 3..64 (3..400 thorough) plus a tail to 2000, five lambdas, seven shapes, three scales: optimality residual, cycle+trend identity, wrapper definitions, finite moment summary.",
                note="Shapes outside the lattice are not covered; weakest use of the technique in this list."),
}


def main():
    checks, na = [], []
    for pid in sorted(META):
        m = META[pid]
        if (HOME / "vf" / "checks" / f"{pid.lower()}.py").exists():
            checks.append({
                "property_id": pid,
                "quick_cmd": f"./run {pid} quick",
                "thorough_cmd": f"./run {pid} thorough",
                "evidence_file": f"/verif/evidence/{pid}.json",
                "replay_cmd_template": "./run replay {path}",
                "engine": m["engine"],
                "level_claimed": {"category": "model_checking", "text": m["text"], "design_ref": f"DESIGN.md section 5, {pid}"},
                "level_note": m["note"],
                "technique": m["tech"],
            })
        else:
            na.append({"property_id": pid, "reason": "check not built yet (planned, see DESIGN.md section 5); not claimed until its module exists"})
    man = {
        "version": 1,
        "setup_cmd": "/venv/bin/python -m compileall -q /verif/vf >/dev/null && /verif/run selftest",
        "hooks": {
            "guard": "BLACK_IT_VERIF",
            "enable": "no source hooks are needed: every seam is patched from outside at run time (class/module attributes, sys.settrace, file-open wrappers); ./run exports BLACK_IT_VERIF=1 for completeness",
            "baseline_off_cmd": "cd /repo && /venv/bin/python -m pytest -ra -q -p no:cacheprovider --timeout=900 --continue-on-collection-errors",
            "source_commits": [],
            "add_only": True,
        },
        "engines": [
            {"name": "E1-sched", "path": "vf/sched", "serves_properties": ["C10", "C11", "C09"], "kind_free_text": "controlled-thread stateless explorer (baton passing, preemption bounding, line-granularity tier)"},
            {"name": "E2-opseq", "path": "vf/opseq", "serves_properties": ["C01", "C02", "C04", "C05", "C09", "C11", "C14", "C18"], "kind_free_text": "explicit-state search over operation histories of the real Calibrator with canonical state hashing"},
            {"name": "E3-crash", "path": "vf/crash", "serves_properties": ["C06"], "kind_free_text": "write-log recorder, crash-state enumerator, statement-level exception injector"},
            {"name": "E4-enum", "path": "vf/checks", "serves_properties": ["C03", "C07", "C08", "C12", "C13", "C15", "C16", "C17", "C19", "C20"], "kind_free_text": "bounded-exhaustive input / short-sequence enumeration against executable reference models"},
        ],
        "checks": checks,
        "not_applicable": na,
        "notes": "All checks run the current working tree of /repo (PYTHONPATH=$VERIF_REPO first; no build step). Exit 0 held / 1 VIOLATION / 2 harness error. known_findings.txt lists open and fixed findings.",
    }
    (HOME / "MANIFEST.json").write_text(json.dumps(man, indent=1) + "\n")
    import jsonschema

    jsonschema.validate(man, json.load(open("/root/.vp/MANIFEST.schema.json")))
    print(f"MANIFEST.json: {len(checks)} checks, {len(na)} not_applicable; valid")


main()
