#!/bin/bash
# usage: tools/at_commit.sh <commit-ish of /repo> <ID> [tier]  - run a check against an older revision of black_it (scratch copy, removed afterwards)
set -u
REV="$1"; ID="$2"; TIER="${3:-quick}"
SCR="$(mktemp -d /tmp/vrev.XXXXXX)"
trap 'rm -rf "$SCR"' EXIT
mkdir -p "$SCR/repo"
git -C /repo archive "$REV" black_it | tar -x -C "$SCR/repo" || exit 2
VERIF_REPO="$SCR/repo" "$(dirname "$0")/../run" "$ID" "$TIER"
