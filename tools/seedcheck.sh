#!/bin/bash
# usage: tools/seedcheck.sh <Cxx> <a|b> [check ids...]   (default check id = Cxx)
# Confirms a sub-agent's seeded change: demo passes on /repo, fails on the patched tree, stable tests still pass
# on the patched tree, and runs our quick check(s) against it. Copies the artefacts to /verif/seeded/<Cxx>-<v>/.
set -u
P="$1"; V="$2"; shift 2; CHECKS="${*:-$P}"
SRC="/tmp/seed/$P/_seeded/$V"
# second wave: /tmp/seed/Dxx/_seeded/{a,b} are stored as <Cxx>-c and <Cxx>-d
case "$V" in c) SRC="/tmp/seed/D${P#C}/_seeded/a";; d) SRC="/tmp/seed/D${P#C}/_seeded/b";; e) SRC="/tmp/seed/E${P#C}/_seeded/a";; f) SRC="/tmp/seed/E${P#C}/_seeded/b";; g) SRC="/tmp/seed/F${P#C}/_seeded/a";; h) SRC="/tmp/seed/F${P#C}/_seeded/b";; i) SRC="/tmp/seed/G${P#C}/_seeded/a";; j) SRC="/tmp/seed/G${P#C}/_seeded/b";; k) SRC="/tmp/seed/H${P#C}/_seeded/a";; l) SRC="/tmp/seed/J${P#C}/_seeded/a";; esac
DST="/verif/seeded/$P-$V"
[ -f "$SRC/patch.diff" ] || { echo "no $SRC/patch.diff"; exit 2; }
mkdir -p "$DST"; cp "$SRC/patch.diff" "$SRC/demo.py" "$SRC/meta.json" "$DST/" 2>/dev/null
WT="$(mktemp -d /tmp/sc.XXXXXX)"; rmdir "$WT"
git -C /repo worktree add -q --detach "$WT" HEAD || exit 2
trap 'git -C /repo worktree remove --force "$WT" >/dev/null 2>&1; rm -rf "$WT"' EXIT
R=""
( cd /tmp && PYTHONPATH=/repo timeout 600 /venv/bin/python "$DST/demo.py" >"$DST/demo_without.log" 2>&1 ); D0=$?
git -C "$WT" apply --whitespace=nowarn "$DST/patch.diff" || { echo "$P-$V: PATCH DOES NOT APPLY"; exit 2; }
( cd /tmp && PYTHONPATH="$WT" timeout 600 /venv/bin/python "$DST/demo.py" >"$DST/demo_with.log" 2>&1 ); D1=$?
CK=""
for C in $CHECKS; do
  VERIF_REPO="$WT" /verif/run "$C" quick >"$DST/check_$C.log" 2>&1; CK="$CK $C=$?"
done
( cd "$WT" && PYTHONPATH="$WT" /venv/bin/python -m pytest -q -p no:cacheprovider --timeout=900 --continue-on-collection-errors --junitxml="$WT/junit.xml" >"$DST/tests.log" 2>&1 )
/venv/bin/python /verif/tools/compare_baseline.py "$WT/junit.xml" >"$DST/tests_vs_baseline.log" 2>&1; T=$?
tail -1 "$DST/tests.log" > "$DST/tests_tail.log"; rm -f "$DST/tests.log"
echo "$P-$V: demo_without=$D0 demo_with=$D1 stable_tests_missing=$T checks:$CK" | tee "$DST/confirm.txt"
