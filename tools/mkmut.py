"""Create a mutation patch from a string replacement.
usage: mkmut.py <out.diff> <file relative to /repo> <<< JSON [[old,new],...]  (each old must occur exactly once)
Several files: call repeatedly with the same out.diff and --append.
"""
import difflib, json, sys
append = "--append" in sys.argv
args = [a for a in sys.argv[1:] if a != "--append"]
out, rel = args[0], args[1]
pairs = json.load(sys.stdin)
src = open(f"/repo/{rel}").read()
new = src
for old, rep in pairs:
    assert new.count(old) == 1, f"{old!r} occurs {new.count(old)} times in {rel}"
    new = new.replace(old, rep)
diff = "".join(difflib.unified_diff(src.splitlines(True), new.splitlines(True), f"a/{rel}", f"b/{rel}"))
open(out, "a" if append else "w").write(diff)
print(diff)
