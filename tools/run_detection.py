"""Run every own mutation and every seeded change against its check(s) and write DETECTION.md.
usage: /venv/bin/python tools/run_detection.py [--tests] [--only substr]
Each patch is applied to a scratch copy of /repo's black_it (tools/mutant.sh), never to /repo itself."""
import glob, os, re, subprocess, sys, time
HOME = os.path.dirname(os.path.dirname(os.path.abspath(__file__)))
EXTRA = {  # patches that are (also) expected to be caught by other checks
    "c01_halton_cursor_not_reset_on_reseed": ["C01", "C13"], "c05_batch_index_incremented_after_checkpoint": ["C05", "C04"], "c11_history_extended_before_loss": ["C11", "C02"],
    "C19-b": ["C19", "C10"], "C11-a": ["C11", "C02"], "C09-a": ["C09", "C05"], "C05-a": ["C05", "C09"], "C03-b": ["C03", "C15"], "C08-a": ["C08", "C02"], "C07-b": ["C07", "C08"],
    "C18-d": ["C11"], "C02-d": ["C02", "C16"], "C09-c": ["C09", "C05", "C04"], "C09-d": ["C09", "C10"], "C10-d": ["C10", "C09"],
    "C02-f": ["C08"], "C05-f": ["C05", "C04"], "C07-f": ["C08"], "C10-f": ["C10", "C11"], "C14-f": ["C14", "C02"], "C18-e": ["C04"], "C09-f": ["C09", "C10"], "C11-f": ["C11", "C10"],
    "C05-h": ["C05", "C04"], "C18-h": ["C18", "C04"], "C14-h": ["C04"], "C09-g": ["C09", "C10"],
    "C10-i": ["C01"], "C01-j": ["C13"], "C11-i": ["C11", "C10"],
    "C02-k": ["C02", "C11"], "C04-k": ["C04", "C14"], "C05-k": ["C05", "C04"], "C11-k": ["C11", "C09", "C10"], "C16-k": ["C16", "C02"], "C09-l": ["C11"],
}
# not a violation under the property as we read it (DESIGN.md 11.8): must stay silent
EXPECT_SILENT = {("C07-d", "C07"), ("C14-g", "C14")}
# a wave 5 change outside every property's quantifier (DESIGN.md 11.12): listed so that the matrix shows them; not counted as expected detections
KNOWN_MISSED = {("C10-j", "C10")}
only = sys.argv[sys.argv.index("--only") + 1] if "--only" in sys.argv else ""
rows = []
patches = sorted(glob.glob(f"{HOME}/mutations/*.diff")) + sorted(glob.glob(f"{HOME}/seeded/*/patch.diff"))
for p in patches:
    name = os.path.basename(p)[:-5] if "/mutations/" in p else os.path.basename(os.path.dirname(p))
    if only and only not in name:
        continue
    base = ("C" + name[1:3]) if name.startswith("c") else name.split("-")[0]
    for chk in EXTRA.get(name, [base]):
        t0 = time.time()
        r = subprocess.run([f"{HOME}/tools/mutant.sh", p, chk, "quick"], capture_output=True, text=True)
        keys = re.findall(r"^\s+key=(\S+)", r.stdout, flags=re.M)
        rows.append((name, chk, r.returncode, ", ".join(sorted(set(keys))[:3])[:140], round(time.time() - t0)))
        print(rows[-1], flush=True)
with open(f"{HOME}/DETECTION.md", "w") as f:
    f.write("# Detection matrix\n\nProduced by `tools/run_detection.py` (quick tier, VERIF_SEED=%s). Exit 1 = the check reported a VIOLATION with a replay file; 0 = silent; 2 = harness error.\n\n" % os.environ.get("VERIF_SEED", "0"))
    f.write("| change | check | exit | first violation keys | s |\n|---|---|---|---|---|\n")
    for r in rows:
        f.write("| %s | %s | %s | %s | %s |\n" % r)
    missed = [r for r in rows if (r[2] != 1) != ((r[0], r[1]) in EXPECT_SILENT) and (r[0], r[1]) not in KNOWN_MISSED]
    f.write("\n%d of %d (change, check) pairs as expected (C07-d and C14-g are expected to stay silent: undefined rounding ties, DESIGN.md 11.8 / 11.10;; one wave-5 change is not reported by any check: C10-j, outside every quantifier, DESIGN.md 11.12); unexpected: %s\n" % (len(rows) - len(missed), len(rows), [(r[0], r[1], r[2]) for r in missed]))
print("unexpected:", [(r[0], r[1], r[2]) for r in rows if (r[2] != 1) != ((r[0], r[1]) in EXPECT_SILENT) and (r[0], r[1]) not in KNOWN_MISSED])
