"""Compare a junit xml against the stable_pass list of /root/.vp/BASELINE.json. usage: python tools_compare_baseline.py <junit.xml>"""
import json, sys, xml.etree.ElementTree as ET
base = json.load(open('/root/.vp/BASELINE.json'))
stable = set(base['stable_pass'])
root = ET.parse(sys.argv[1]).getroot()
passed = set()
for tc in root.iter('testcase'):
    bad = any(ch.tag in ('failure', 'error', 'skipped') for ch in tc)
    name = f"{tc.get('classname')}::{tc.get('name')}"
    if not bad:
        passed.add(name)
missing = sorted(stable - passed)
print(f"stable={len(stable)} passed_now={len(passed)} stable_missing={len(missing)}")
for m in missing:
    print("  MISSING", m)
sys.exit(1 if missing else 0)
